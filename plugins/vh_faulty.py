"""
Fault-injection plugin for the verification harness (loaded with --add-plugin).

Raises RuntimeError
  - when a text token / a line contains the marker FAULT-TOKEN / FAULT-LINE,
  - when the file completes and a line contained FAULT-COMPLETE,
  - at the n-th invocation (0-based, counted over the whole process) of one callback kind,
    given by the environment variable VH_FAULT="<start|token|line|complete>:<n>".
It is fix-capable (level 0) so that it also takes part in fix passes; it never fixes anything.
"""
import os

from pymarkdown.plugin_manager.plugin_details import PluginDetails, PluginDetailsV2
from pymarkdown.plugin_manager.plugin_scan_context import PluginScanContext
from pymarkdown.plugin_manager.rule_plugin import RulePlugin
from pymarkdown.tokens.markdown_token import MarkdownToken

COUNTS = {"start": 0, "token": 0, "line": 0, "complete": 0}


def reset_counts():
    for k in COUNTS:
        COUNTS[k] = 0


def _tick(kind):
    n = COUNTS[kind]
    COUNTS[kind] = n + 1
    if os.environ.get("VH_FAULT_LOG") == "1":
        from pymarkdown.general import verif_probe

        verif_probe.emit("vh_tick", kind=kind, n=n)
    spec = os.environ.get("VH_FAULT", "")
    if spec:
        want_kind, _, want_n = spec.partition(":")
        if want_kind == kind and int(want_n) == n:
            raise RuntimeError("injected fault at %s #%d" % (kind, n))


class VhFaulty(RulePlugin):
    def __init__(self) -> None:
        super().__init__()
        self.__complete_fault = False

    def get_details(self) -> PluginDetails:
        return PluginDetailsV2(
            plugin_name="vh-faulty",
            plugin_id="VHF900",
            plugin_enabled_by_default=True,
            plugin_description="Verification harness fault injection.",
            plugin_version="0.0.1",
            plugin_supports_fix=True,
            plugin_fix_level=0,
        )

    def starting_new_file(self) -> None:
        self.__complete_fault = False
        _tick("start")

    def next_token(self, context: PluginScanContext, token: MarkdownToken) -> None:
        _tick("token")
        if token.is_text and "FAULT-TOKEN" in token.token_text:  # type: ignore
            raise RuntimeError("injected fault: FAULT-TOKEN")

    def next_line(self, context: PluginScanContext, line: str) -> None:
        _tick("line")
        if "FAULT-COMPLETE" in line:
            self.__complete_fault = True
        if "FAULT-LINE" in line:
            raise RuntimeError("injected fault: FAULT-LINE")

    def completed_file(self, context: PluginScanContext) -> None:
        _tick("complete")
        if self.__complete_fault:
            raise RuntimeError("injected fault: FAULT-COMPLETE")
