"""pytest plugin of the verification harness (loaded with -p vh_pytest_trace): gives every test process its own probe
trace file, so that the events of the repository's own tests can be validated against the specification."""
import os


def pytest_configure(config):
    d = os.environ.get("VH_SUITE_TRACE_DIR")
    if d:
        os.environ["PYMARKDOWN_VERIF_TRACE"] = os.path.join(d, "trace_%d.ndjson" % os.getpid())
