--------------------------------- MODULE Obs ---------------------------------
(* Observational determinism: the common shape of C07 (repeat), C12, C13 and C16.

   There is ONE function `verdict` from keys to values -- e.g. key = (document, rule) and value =
   the failures that rule reports for that document; or key = document and value = its fixed text.
   Every observation made of the implementation, through whichever entry point, rule selection,
   position in a multi-file run or repetition, must be explained by that single function.
   `verdict` is never logged: it is bound by the first observation of a key and every later
   observation of the same key must agree with it.  An observation can also be `forbidden`
   (e.g. a report from a rule that is not enabled in that run): it is never explained. *)
EXTENDS TLC

VARIABLES verdict            \* function: keys seen so far -> value
OInit == verdict = <<>>

Observe(key, val, forbidden) ==
  /\ ~forbidden
  /\ IF key \in DOMAIN verdict
     THEN verdict[key] = val /\ UNCHANGED verdict
     ELSE verdict' = (key :> val) @@ verdict

Functional == \A k \in DOMAIN verdict : verdict[k] = verdict[k]
=============================================================================
