------------------------------- MODULE Engine -------------------------------
(* The rule engine's dispatch of one file to the rule plugins (property C14), as seen from the
   plugins: every callback a plugin receives is one action.

   For every file, each enabled rule that takes part is told that a new file starts, then receives
   every token of the stream in order (the stream ends with the end-of-stream token), then -- in a
   pass that has lines -- every line in order with its exact text and its 1-based number, then that
   the file is complete.  A disabled rule receives nothing.

   Scan mode has one pass per file and every enabled rule takes part.  Fix mode has, per fix level,
   a token sub-pass (start, tokens, complete(-1)) and a line sub-pass (start, tokens, lines,
   complete); the rules that offer a fix at that level or a higher one take part.  Deviations of the
   implementation that the documentation does not rule out are explicit and named:
     RedundantStart    in fix mode a rule may be told twice that the file starts before its first
                       token, and rules that do not take part may be told so too;
     TokenPassComplete the token sub-pass of fix mode ends with completed_file without lines;
     PragmaAfterEos    in fix mode the pragma token that carries the document's pragma lines is
                       handed to the rules after the end-of-stream token (scan mode strips it). *)
EXTENDS Integers, Sequences, FiniteSets

CONSTANTS Plugins        \* set of plugin ids taking part in the observation
VARIABLES
  mode,          \* "scan" | "fix" | "none" (no file open)
  enabled,       \* set of enabled plugins
  fixable,       \* set of plugins offering a fix
  cbs,           \* plugin -> set of callbacks it implements ("s","t","l","c")
  ph,            \* plugin -> "idle" | "started" | "tok" | "lin"
  ti, li,        \* plugin -> tokens / lines received in the current sub-pass
  eos,           \* plugin -> the last token received was the end-of-stream token
  subs,          \* plugin -> completed sub-passes for the current file
  shape,         \* <<>> or <<ntok, nlin>>: what the first rule to complete in this group of sub-passes received
  closed,        \* some rule of the current group has completed
  expTok, expLin \* expected token hashes / line texts of the current file (<<>>: content not constrained)
evars == <<mode, enabled, fixable, cbs, ph, ti, li, eos, subs, shape, closed, expTok, expLin>>

EInit ==
  /\ mode = "none" /\ enabled = {} /\ fixable = {} /\ cbs = [p \in Plugins |-> {}]
  /\ ph = [p \in Plugins |-> "idle"] /\ ti = [p \in Plugins |-> 0] /\ li = [p \in Plugins |-> 0]
  /\ eos = [p \in Plugins |-> FALSE] /\ subs = [p \in Plugins |-> 0]
  /\ shape = <<>> /\ closed = FALSE /\ expTok = <<>> /\ expLin = <<>>

Configure(en, fx, cb) ==
  /\ mode = "none"
  /\ enabled' = en /\ fixable' = fx /\ cbs' = cb
  /\ UNCHANGED <<mode, ph, ti, li, eos, subs, shape, closed, expTok, expLin>>

BeginFile(m, et, el) ==
  /\ mode = "none" /\ m \in {"scan", "fix"}
  /\ mode' = m /\ expTok' = et /\ expLin' = el
  /\ ph' = [p \in Plugins |-> "idle"] /\ ti' = [p \in Plugins |-> 0] /\ li' = [p \in Plugins |-> 0]
  /\ eos' = [p \in Plugins |-> FALSE] /\ subs' = [p \in Plugins |-> 0] /\ shape' = <<>> /\ closed' = FALSE
  /\ UNCHANGED <<enabled, fixable, cbs>>

TakesPart(p) == p \in enabled /\ (mode = "fix" => p \in fixable)

Start(p) ==
  /\ mode # "none" /\ p \in enabled                        \* a disabled rule receives nothing
  /\ \/ ph[p] = "idle"
     \/ ph[p] = "started" /\ mode = "fix"                   \* RedundantStart
  /\ ph' = [ph EXCEPT ![p] = "started"]
  /\ ti' = [ti EXCEPT ![p] = 0] /\ li' = [li EXCEPT ![p] = 0] /\ eos' = [eos EXCEPT ![p] = FALSE]
  /\ shape' = (IF closed THEN <<>> ELSE shape) /\ closed' = FALSE
  /\ UNCHANGED <<mode, enabled, fixable, cbs, subs, expTok, expLin>>

(* a rule without starting_new_file is implicitly started by its first callback of a sub-pass *)
Ready(p) == ph[p] = "started" \/ (ph[p] = "idle" /\ "s" \notin cbs[p])

Token(p, i, h, isEos, isPragma) ==
  /\ mode # "none" /\ TakesPart(p)
  /\ \/ Ready(p) /\ i = 1 /\ ~isPragma
     \/ ph[p] = "tok" /\ i = ti[p] + 1 /\ ~eos[p] /\ ~isPragma  \* in order, nothing after the end-of-stream token
     \/ ph[p] = "tok" /\ eos[p] /\ isPragma /\ mode = "fix" /\ ~isEos              \* PragmaAfterEos (at most once: see pragSeen)
  /\ (expTok # <<>> /\ ~isPragma) => (i <= Len(expTok) /\ h = expTok[i])    \* exactly the parser's stream
  /\ (expTok # <<>> /\ isEos) => i = Len(expTok)
  /\ ph' = [ph EXCEPT ![p] = "tok"] /\ ti' = [ti EXCEPT ![p] = IF isPragma THEN @ ELSE i]
  /\ eos' = [eos EXCEPT ![p] = isEos \/ isPragma]
  /\ li' = [li EXCEPT ![p] = IF ph[p] = "tok" THEN @ ELSE 0]
  /\ shape' = (IF closed THEN <<>> ELSE shape) /\ closed' = FALSE
  /\ UNCHANGED <<mode, enabled, fixable, cbs, subs, expTok, expLin>>

TokensDone(p) == IF "t" \in cbs[p] THEN ph[p] = "tok" /\ eos[p] ELSE Ready(p)

Line(p, j, ln, text) ==
  /\ mode # "none" /\ TakesPart(p)
  /\ \/ TokensDone(p) /\ j = 1
     \/ ph[p] = "lin" /\ j = li[p] + 1
  /\ ln = j                                                   \* 1-based line number
  /\ expLin # <<>> => (j <= Len(expLin) /\ text = expLin[j])  \* exact text
  /\ ph' = [ph EXCEPT ![p] = "lin"] /\ li' = [li EXCEPT ![p] = j]
  /\ ti' = [ti EXCEPT ![p] = IF ph[p] = "idle" THEN 0 ELSE @]
  /\ shape' = (IF closed THEN <<>> ELSE shape) /\ closed' = FALSE
  /\ UNCHANGED <<mode, enabled, fixable, cbs, eos, subs, expTok, expLin>>

LinesDone(p) ==
  IF "l" \in cbs[p] THEN ph[p] = "lin" /\ (expLin # <<>> => li[p] = Len(expLin))
  ELSE TokensDone(p)

Complete(p, ln) ==
  /\ mode # "none" /\ TakesPart(p)
  /\ \/ LinesDone(p) /\ (("l" \in cbs[p]) => ln = li[p] + 1)    \* after the last line
     \/ mode = "fix" /\ TokensDone(p) /\ ln = -1                \* TokenPassComplete
  /\ LET sh == <<IF "t" \in cbs[p] THEN ti[p] ELSE -1, IF "l" \in cbs[p] /\ ln # -1 THEN li[p] ELSE -1>> IN
       \* every rule of the same group of sub-passes received the same number of tokens and lines
       /\ (shape # <<>> /\ closed) =>
             /\ (sh[1] # -1 /\ shape[1] # -1) => sh[1] = shape[1]
             /\ (sh[2] # -1 /\ shape[2] # -1) => sh[2] = shape[2]
       /\ shape' = IF shape = <<>> \/ ~closed THEN sh
                   ELSE <<IF shape[1] = -1 THEN sh[1] ELSE shape[1], IF shape[2] = -1 THEN sh[2] ELSE shape[2]>>
  /\ closed' = TRUE
  /\ ph' = [ph EXCEPT ![p] = "idle"] /\ subs' = [subs EXCEPT ![p] = @ + 1]
  /\ UNCHANGED <<mode, enabled, fixable, cbs, ti, li, eos, expTok, expLin>>

(* the file is done; part[p] = number of fix passes whose fix or collect list names p (0 in scan mode) *)
EndFile(ok, part) ==
  /\ mode # "none"
  /\ ok => \A p \in Plugins :
        /\ ph[p] = "idle" \/ (ph[p] = "started" /\ mode = "fix") \/ cbs[p] \cap {"c"} = {}   \* RedundantStart of a later pass
        /\ (p \in enabled /\ "c" \in cbs[p] /\ mode = "scan") => subs[p] = 1        \* exactly once
        /\ (p \notin enabled) => subs[p] = 0
        /\ (mode = "fix" /\ p \notin fixable) => subs[p] = 0
        /\ (mode = "fix" /\ TakesPart(p) /\ "c" \in cbs[p]) => subs[p] = 2 * part[p]   \* token and line sub-pass of each pass
  /\ mode' = "none"
  /\ UNCHANGED <<enabled, fixable, cbs, ph, ti, li, eos, subs, shape, closed, expTok, expLin>>

(* ------------------------------ invariants ----------------------------------------------- *)
DisabledSilent == mode # "none" => \A p \in Plugins : p \notin enabled => ph[p] = "idle" /\ subs[p] = 0
Counts == \A p \in Plugins : ti[p] >= 0 /\ li[p] >= 0
=============================================================================
