-------------------------------- MODULE Rules --------------------------------
(* The documented trigger condition of rules (newdocs/src/plugins/rule_md*.md; property C06), as pure
   operators over a description of the document that does NOT come from the implementation under test:
     L   sequence of line facts, one per line of the file (the empty line after a final newline included):
           [len, trail (trailing spaces), tabs (number of tab characters), blank, code ("" | "fenced" | "indented": the
            line is content or fence of a code block), html (inside an HTML block), heading (line belongs to a heading),
            ws (the columns that hold a whitespace character)]
     B   sequence of blocks in document order (from an independent CommonMark parser):
           [k ("h", "fence", "icode", "hr", "html", "p", "ul", "ol", "bq"), ln, endln, level, style, info, marker, depth]
     I   sequence of inline facts (links and images): [k, ln, href (stripped), alt (stripped)]
     cfg the rule's configuration record.
   Each Verdict_MDnnn gives the set of line numbers the rule must report. *)
EXTENDS Integers, Sequences, FiniteSets

Lines(L) == 1..Len(L)
Blocks(B, kind) == {i \in 1..Len(B) : B[i].k = kind}
V(must, may) == [must |-> must \ may, may |-> may]

(* Every verdict is a pair: `must` -- lines the rule has to report, `may` -- lines on which the documentation does not
   decide (named per rule below); the implementation's report R is right iff  must \subseteq R \subseteq must \cup may. *)

(* MD009 no-trailing-spaces: a line ends in spaces whose count is neither 0 nor br_spaces -- or is not 0 at all when
   strict; lines of code blocks are exempt.  Undecided: lines that are blank apart from container markers (`> `), and
   lines of list items (list_item_empty_lines). *)
Verdict_MD009(L, cfg) ==
  V({i \in Lines(L) : /\ L[i].code = ""
                      /\ L[i].trail > 0
                      /\ (cfg.strict \/ L[i].trail # cfg.br_spaces \/ cfg.br_spaces < 2)},
    {i \in Lines(L) : L[i].cblank \/ L[i].html \/ (L[i].blank /\ L[i].inlist) \/ L[i].tabs > 0})

(* MD010 no-hard-tabs: every line with a tab character; with code_blocks = FALSE the lines INSIDE fenced code blocks are
   exempt.  Undecided with code_blocks = FALSE: indented code lines and the fence lines themselves. *)
Verdict_MD010(L, cfg) ==
  V({i \in Lines(L) : L[i].tabs > 0 /\ (cfg.code_blocks \/ L[i].code = "")},
    {i \in Lines(L) : ~cfg.code_blocks /\ (L[i].code = "indented" \/ L[i].fenceline)})

(* MD012 no-multiple-blanks: a run of more than `maximum` blank lines (blank apart from block quote markers) outside
   code blocks, reported on the LAST line of the run.  Undecided: runs that touch a container boundary or an HTML block. *)
IsBlank(l) == (l.blank \/ l.cblank) /\ l.code = ""
RunEnd(L, i) == IsBlank(L[i]) /\ (i = Len(L) \/ ~IsBlank(L[i + 1]))
RECURSIVE RunLen(_, _)
RunLen(L, i) == IF i >= 1 /\ IsBlank(L[i]) THEN 1 + RunLen(L, i - 1) ELSE 0
RECURSIVE RunMixed(_, _)
RunMixed(L, i) == IF i >= 1 /\ IsBlank(L[i]) THEN L[i].cblank \/ L[i].html \/ L[i].inlist \/ RunMixed(L, i - 1) ELSE FALSE
Verdict_MD012(L, cfg) ==
  V({i \in Lines(L) : RunEnd(L, i) /\ RunLen(L, i) > cfg.maximum},
    {i \in Lines(L) : IsBlank(L[i]) /\ (RunMixed(L, i) \/ (i < Len(L) /\ RunMixed(L, i + 1)) \/ L[i].html)})

(* MD013 line-length: the line is longer than the limit that applies to it (ATX heading / code block / other) and -- unless
   strict -- there is whitespace beyond the limit.  Undecided: the lines of setext headings (heading or ordinary limit?). *)
LimitOf(l, cfg) == IF l.heading THEN cfg.heading_line_length ELSE IF l.code # "" THEN cfg.code_block_line_length ELSE cfg.line_length
Applies013(l, cfg) == (l.heading => cfg.headings) /\ (l.code # "" => cfg.code_blocks)
Verdict_MD013(L, cfg) ==
  V({i \in Lines(L) : /\ Applies013(L[i], cfg)
                      /\ L[i].len > LimitOf(L[i], cfg)
                      /\ (cfg.strict \/ \E k \in 1..Len(L[i].ws) : L[i].ws[k] > LimitOf(L[i], cfg))},
    {i \in Lines(L) : L[i].setext \/ L[i].fenceline \/ L[i].html})

(* MD047 single-trailing-newline: the file does not end with a newline, i.e. its last line is not empty *)
Verdict_MD047(L) == V({i \in Lines(L) : i = Len(L) /\ L[i].len > 0}, {})

(* MD001 heading-increment: a heading whose level is more than one above the previous heading's level *)
PrevHeading(B, i) == IF \E j \in 1..(i - 1) : B[j].k = "h"
                     THEN CHOOSE j \in 1..(i - 1) : B[j].k = "h" /\ \A m \in (j + 1)..(i - 1) : B[m].k # "h" ELSE 0
Verdict_MD001(B) == V({B[i].ln : i \in {x \in Blocks(B, "h") : PrevHeading(B, x) # 0 /\ B[x].level > B[PrevHeading(B, x)].level + 1}}, {})

(* MD025 single-title: a second heading of the top level (level 1 by default) *)
Verdict_MD025(B, cfg) ==
  LET tops == {i \in Blocks(B, "h") : B[i].level = cfg.level} IN
  V({B[i].ln : i \in {x \in tops : \E y \in tops : y < x}}, {})

(* MD040 fenced-code-language: a fenced code block without an info string *)
Verdict_MD040(B) == V({B[i].ln : i \in {x \in Blocks(B, "fence") : B[x].info = ""}}, {})

(* MD048 code-fence-style: a fence whose character differs from the configured one / from the first fence's (consistent) *)
FirstOf(B, kind) == IF Blocks(B, kind) = {} THEN 0 ELSE CHOOSE i \in Blocks(B, kind) : \A j \in Blocks(B, kind) : i <= j
Verdict_MD048(B, cfg) ==
  LET want == IF cfg.style = "consistent" THEN (IF FirstOf(B, "fence") = 0 THEN "" ELSE B[FirstOf(B, "fence")].style) ELSE cfg.style IN
  V({B[i].ln : i \in {x \in Blocks(B, "fence") : B[x].style # want}}, {})

(* MD046 code-block-style: a code block whose style (fenced / indented) differs from the configured one / from the first's *)
CodeBlocks(B) == Blocks(B, "fence") \cup Blocks(B, "icode")
StyleOf(b) == IF b.k = "fence" THEN "fenced" ELSE "indented"
Verdict_MD046(B, cfg) ==
  LET first == IF CodeBlocks(B) = {} THEN 0 ELSE CHOOSE i \in CodeBlocks(B) : \A j \in CodeBlocks(B) : i <= j
      want == IF cfg.style = "consistent" THEN (IF first = 0 THEN "" ELSE StyleOf(B[first])) ELSE cfg.style IN
  V({B[i].ln : i \in {x \in CodeBlocks(B) : StyleOf(B[x]) # want}}, {})

(* MD035 hr-style: a thematic break whose text differs from the configured one / from the first's *)
Verdict_MD035(B, cfg) ==
  LET want == IF cfg.style = "consistent" THEN (IF FirstOf(B, "hr") = 0 THEN "" ELSE B[FirstOf(B, "hr")].style) ELSE cfg.style IN
  V({B[i].ln : i \in {x \in Blocks(B, "hr") : B[x].style # want}}, {})

(* MD019 no-multiple-space-atx: more than one space after the opening hashes of an ATX heading without closing hashes
   (closed headings are MD021's).  Undecided: a tab after the hashes. *)
Verdict_MD019(B) ==
  V({B[i].ln : i \in {x \in Blocks(B, "h") : B[x].style = "atx" /\ B[x].gap > 1}},
    {B[i].ln : i \in {x \in Blocks(B, "h") : B[x].style \in {"atx_closed", "atx_tab"}}})

(* MD023 heading-start-left: a top-level heading that does not start at the beginning of the line.  Undecided: headings
   inside containers (indentation relative to the container's content column). *)
Verdict_MD023(B) ==
  V({B[i].ln : i \in {x \in Blocks(B, "h") : B[x].indent > 0}},
    {B[i].ln : i \in {x \in Blocks(B, "h") : B[x].depth > 0}})

(* MD003 heading-style: every heading has the configured style / the style of the first heading (consistent).  ATX with a
   tab counts as ATX.  Under a setext style, headings of level 3+ cannot be setext: undecided (setext_with_atx, allow-setext-update). *)
Family(st) == IF st \in {"atx", "atx_tab"} THEN "atx" ELSE st
Verdict_MD003(B, cfg) ==
  LET hs == Blocks(B, "h")
      first == IF hs = {} THEN 0 ELSE CHOOSE i \in hs : \A j \in hs : i <= j
      want == IF cfg.style = "consistent" THEN (IF first = 0 THEN "" ELSE Family(B[first].style)) ELSE cfg.style IN
  V({B[i].ln : i \in {x \in hs : Family(B[x].style) # want}},
    {B[i].ln : i \in {x \in hs : want = "setext" /\ B[x].level >= 3}})

(* MD024 no-duplicate-heading: a heading whose text equals the text of an earlier heading.  With siblings_only only "twins" count: the same text at the same level under the same parent heading (the nearest
   earlier heading of a lower level).  Undecided: texts with inline markup. *)
ParentHeading(B, x) ==
  LET up == {j \in 1..(x - 1) : B[j].k = "h" /\ B[j].level < B[x].level} IN
  IF up = {} THEN 0 ELSE CHOOSE j \in up : \A m \in up : m <= j
Verdict_MD024(B, cfg) ==
  LET hs == Blocks(B, "h")
      dup(x, y) == y < x /\ B[y].text = B[x].text
                   /\ (cfg.siblings_only => B[y].level = B[x].level /\ ParentHeading(B, x) = ParentHeading(B, y)) IN
  V({B[i].ln : i \in {x \in hs : \E y \in hs : dup(x, y)}},
    {B[i].ln : i \in {x \in hs : B[x].markup}})

(* MD026 no-trailing-punctuation: the heading text ends in one of the configured characters.  Undecided: a text ending in ';'
   that may be an entity, texts with inline markup at the end. *)
Verdict_MD026(B, cfg) ==
  LET hs == Blocks(B, "h") IN
  V({B[i].ln : i \in {x \in hs : B[x].lastch \in cfg.punctuation}},
    {B[i].ln : i \in {x \in hs : B[x].lastch = ";" \/ B[x].markup}})

(* MD041 first-line-heading: the first element of the document is not a heading of the configured level.  Undecided: documents
   that start with an HTML block (an <h1> element counts), with blank lines, or inside a container; empty documents. *)
Verdict_MD041(L, B, cfg) ==
  IF Len(B) = 0 THEN V({}, 1..(Len(L) + 1))
  ELSE LET b == B[1] IN
       V(IF b.k = "h" /\ b.level = cfg.level THEN {} ELSE {b.ln},
         IF b.k \in {"html", "bq", "ul", "ol"} \/ b.ln > 1 \/ b.depth > 0 THEN Lines(L) ELSE {})

(* MD022 blanks-around-headings (lines_above = lines_below = 1): a top-level heading that is directly preceded or directly
   followed by a non-blank line.  Undecided: headings in containers, more than one blank line (a `>` line counts), neighbours that are not
   paragraphs or headings (thematic breaks, HTML blocks, containers). *)
Verdict_MD022(L, B) ==
  LET hs == {x \in Blocks(B, "h") : B[x].depth = 0}
      bad(x) == \/ (B[x].ln > 1 /\ ~L[B[x].ln - 1].blank)
                \/ (B[x].endln < Len(L) /\ ~L[B[x].endln + 1].blank /\ B[x].endln + 1 < Len(L) + 1)
      plainNeighbours(x) ==
         /\ (B[x].ln > 1 => (L[B[x].ln - 1].blank \/ L[B[x].ln - 1].plain))
         /\ (B[x].endln < Len(L) => (L[B[x].endln + 1].blank \/ L[B[x].endln + 1].plain)) IN
  V({B[i].ln : i \in {x \in hs : bad(x) /\ plainNeighbours(x)}},
    {B[i].ln : i \in {x \in Blocks(B, "h") : B[x].depth > 0 \/ ~plainNeighbours(x)
                                              \/ B[x].endln = Len(L)                      \* the file ends with the heading line
                                              \/ (B[x].ln > 2 /\ L[B[x].ln - 1].blank /\ (L[B[x].ln - 2].blank \/ L[B[x].ln - 2].cblank))
                                              \/ (B[x].endln + 2 <= Len(L) /\ L[B[x].endln + 1].blank
                                                   /\ (L[B[x].endln + 2].blank \/ L[B[x].endln + 2].cblank))}})

(* MD004 ul-style: the marker of an unordered list differs from the configured one / from the first unordered list item's
   (consistent) / from the first item's at the same nesting level of unordered lists (sublist).  The rule must name the
   first line of the list.  Undecided: the further items of such a list (same marker, by construction), and with `sublist`
   every item when unordered lists are nested in ordered lists or block quotes (what is a level?). *)
MarkerName(m) == IF m = "*" THEN "asterisk" ELSE IF m = "-" THEN "dash" ELSE IF m = "+" THEN "plus" ELSE ""
Verdict_MD004(B, cfg) ==
  LET items == Blocks(B, "li")
      FirstWhere(S) == IF S = {} THEN 0 ELSE CHOOSE i \in S : \A j \in S : i <= j
      want(i) == IF cfg.style = "consistent" THEN MarkerName(B[FirstWhere(items)].marker)
                 ELSE IF cfg.style = "sublist" THEN MarkerName(B[FirstWhere({j \in items : B[j].level = B[i].level})].marker)
                 ELSE cfg.style
      wrong == {i \in items : MarkerName(B[i].marker) # want(i)}
      levelsUnclear == cfg.style = "sublist" /\ \E i \in items : B[i].mixed IN
  V({B[i].ln : i \in {x \in wrong : B[x].first}},
    IF levelsUnclear THEN {B[i].ln : i \in items} ELSE {B[i].ln : i \in {x \in wrong : ~B[x].first}})

(* MD018 no-missing-space-atx: a line of a paragraph that, after up to 3 leading spaces, starts with 1-6 `#` directly
   followed by a character that is neither a space nor `#`.  Not when the line ends in `#` (MD020's business).
   Undecided: paragraphs with inline elements (the exemption is per line, the facts are per paragraph), a tab after the hashes. *)
Verdict_MD018(L) ==
  V({i \in Lines(L) : L[i].para /\ L[i].hashes >= 1 /\ L[i].hashes <= 6 /\ L[i].afterhash = "other" /\ ~L[i].endshash},
    {i \in Lines(L) : L[i].para /\ (L[i].pmarkup \/ L[i].afterhash = "tab")})

(* MD031 blanks-around-fences: a fenced code block directly preceded (reported on the opening fence) or directly followed
   (reported on the closing fence) by a non-blank line.  Undecided: fences inside containers (`list_items`, container
   borders), neighbours that are not top-level paragraphs or headings. *)
Verdict_MD031(L, B) ==
  LET fs == Blocks(B, "fence")
      top == {x \in fs : B[x].depth = 0}
      above(x) == B[x].ln > 1 /\ ~L[B[x].ln - 1].blank
      below(x) == B[x].closed /\ B[x].endln < Len(L) /\ ~L[B[x].endln + 1].blank
      plainAbove(x) == B[x].ln > 1 /\ L[B[x].ln - 1].plain
      plainBelow(x) == B[x].endln < Len(L) /\ L[B[x].endln + 1].plain IN
  V({B[x].ln : x \in {y \in top : above(y) /\ plainAbove(y)}} \cup {B[x].endln : x \in {y \in top : below(y) /\ plainBelow(y)}},
    UNION {{B[x].ln, B[x].endln} : x \in {y \in fs : B[y].depth > 0 \/ (above(y) /\ ~plainAbove(y)) \/ (below(y) /\ ~plainBelow(y)) \/ ~B[y].closed}})

(* MD032 blanks-around-lists: an outermost list directly preceded (reported on its first line) or directly followed
   (reported on its last line) by a non-blank line; lists directly inside lists are exempt.  Undecided: lists inside block
   quotes, lists that contain other containers (which line is the last?), neighbours that are not top-level paragraphs or headings. *)
Verdict_MD032(L, B) ==
  LET ls == Blocks(B, "ul") \cup Blocks(B, "ol")
      top == {x \in ls : B[x].depth = 1}
      above(x) == B[x].ln > 1 /\ ~L[B[x].ln - 1].blank
      below(x) == B[x].endln < Len(L) /\ ~L[B[x].endln + 1].blank
      plainAbove(x) == B[x].ln > 1 /\ L[B[x].ln - 1].plain
      plainBelow(x) == B[x].endln < Len(L) /\ L[B[x].endln + 1].plain IN
  V({B[x].ln : x \in {y \in top : above(y) /\ plainAbove(y)}} \cup {B[x].endln : x \in {y \in top : ~B[y].nested /\ below(y) /\ plainBelow(y)}},
    UNION {IF B[x].nested \/ B[x].depth > 1 THEN B[x].ln..B[x].endln ELSE {B[x].ln, B[x].endln} :
           x \in {y \in ls : B[y].depth > 1 \/ B[y].nested \/ (above(y) /\ ~plainAbove(y)) \/ (below(y) /\ ~plainBelow(y))}})

(* MD042 no-empty-links: a link or image whose destination is empty, only whitespace, or only `#`.  Inline facts I:
   [k ("link" | "image"), ln, href, alt, sure (the line could be determined), lo, hi (lines of the enclosing block)]. *)
Verdict_MD042(I) ==
  LET empty == {x \in 1..Len(I) : I[x].href \in {"", "#"}} IN
  V({I[i].ln : i \in {x \in empty : I[x].sure}}, UNION {I[i].lo..I[i].hi : i \in {x \in empty : ~I[x].sure}})

(* MD045 no-alt-text: an image whose alternate text is empty or only whitespace *)
Verdict_MD045(I) ==
  LET noalt == {x \in 1..Len(I) : I[x].k = "image" /\ I[x].alt = ""} IN
  V({I[i].ln : i \in {x \in noalt : I[x].sure}}, UNION {I[i].lo..I[i].hi : i \in {x \in noalt : ~I[x].sure}})
=============================================================================
