----------------------------- MODULE MC_FixSched -----------------------------
(* All instances with the rules below: every initial trigger set, every Dirties relation of the
   allowed shape, every choice of which dirtied rules actually trigger after a pass. *)
EXTENDS FixSched, TLC
CONSTANTS AllowSameLevel          \* FALSE: Dirties only points to strictly higher levels
VARIABLES dirties
mvars == <<fvars, dirties>>

LevelMap == [r \in Rules |-> CASE r = "a" -> 0 [] r = "b" -> 0 [] r = "c" -> 1 [] OTHER -> 2]
Pairs == Rules \X Rules
Allowed(d) == \A p \in d : IF AllowSameLevel THEN Level[p[2]] >= Level[p[1]] ELSE Level[p[2]] > Level[p[1]]
MInit == /\ dirties \in {d \in SUBSET Pairs : Allowed(d)}
         /\ \E T0 \in SUBSET Rules : FInit(T0)
MNext ==
  \/ FirstPass /\ UNCHANGED dirties
  \/ \E D \in SUBSET {p[2] : p \in {q \in dirties : q[1] \in trig \cap FixList}} : RunPass(D) /\ UNCHANGED dirties
Terminates == <>(state = "done")
MSpec == MInit /\ [][MNext]_mvars /\ WF_mvars(MNext)
=============================================================================
