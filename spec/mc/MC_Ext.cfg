INIT MInit
NEXT MNext
INVARIANT Consequence
CHECK_DEADLOCK FALSE
