---- MODULE MC_ParserLoop ----
EXTENDS ParserLoop
====
