CONSTANT MaxLen = 6
INIT MInit
NEXT MNext
INVARIANT WellFormed
CHECK_DEADLOCK FALSE
