CONSTANTS Procs = {"trunc"}
          MaxPasses = 1
          MaxChunks = 2
SPECIFICATION Spec
INVARIANT AtomicTarget
CHECK_DEADLOCK FALSE
