----------------------------- MODULE MC_MdTokens -----------------------------
(* every sequence of Open/Close/Atom the guards allow (depth <= 3): the stack is always well nested and
   a stream can only End with an empty stack *)
EXTENDS MdTokens
Names == {[n |-> "block-quote", c |-> "container"], [n |-> "ulist", c |-> "container"], [n |-> "para", c |-> "leaf"],
          [n |-> "emphasis", c |-> "inline"], [n |-> "text", c |-> "inline"], [n |-> "li", c |-> "container"]}
MNext == \/ \E x \in Names, id \in 1..2 : Len(stack) < 3 /\ x.n \notin {"text", "li"} /\ Open(x.n, x.c, id)
         \/ \E x \in Names, id \in 1..2 : Close(x.n, id)
         \/ \E x \in Names : x.n \in {"text", "li"} /\ Atom(x.n, x.c)
         \/ End
EndedEmpty == ended => stack = <<>>
=============================================================================
