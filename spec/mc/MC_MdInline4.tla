------------------------------ MODULE MC_MdInline4 ------------------------------
(* raw HTML open / closing tags: `x <a` + one or two attribute pieces + a closer + ` y`, and closing-tag forms.  GENERATED pieces:
   attributes ['', ' b', ' b=c', ' b=""', " b=''", ' b="c"', " b='c'", ' b=', ' b="c', 'b', ' =c', ' b = c', ' b=c"', ' _x:y.1-2=0', ' b=<']
   closers    ['>', '/>', ' >', ' />', '', ' / >'] *)
EXTENDS MdInline, TLC, Json
CONSTANT MaxAttrs
Attrs == {<<>>, <<" ", "b">>, <<" ", "b", "=", "c">>, <<" ", "b", "=", "\"", "\"">>, <<" ", "b", "=", "'", "'">>, <<" ", "b", "=", "\"", "c", "\"">>, <<" ", "b", "=", "'", "c", "'">>, <<" ", "b", "=">>, <<" ", "b", "=", "\"", "c">>, <<"b">>, <<" ", "=", "c">>, <<" ", "b", " ", "=", " ", "c">>, <<" ", "b", "=", "c", "\"">>, <<" ", "_", "x", ":", "y", ".", "1", "-", "2", "=", "0">>, <<" ", "b", "=", "<">>}
Closers == {<<">">>, <<"/", ">">>, <<" ", ">">>, <<" ", "/", ">">>, <<>>, <<" ", "/", " ", ">">>}
Extra == {<<"x", " ", "<", "/", "a", ">", " ", "y">>, <<"x", " ", "<", "/", "a", " ", ">", " ", "y">>, <<"x", " ", "<", "/", " ", "a", ">", " ", "y">>, <<"x", " ", "<", "/", "a", " ", "b", ">", " ", "y">>, <<"x", " ", "<", "a", ">", "<", "/", "a", ">", " ", "y">>, <<"x", " ", "<", "1", "a", ">", " ", "y">>, <<"x", " ", "<", " ", "a", ">", " ", "y">>, <<"x", " ", "<", "a", "-", "b", " ", "c", "_", "d", "=", "'", "e", "'", ">", " ", "y">>}
AttrSeqs == UNION {[1..n -> Attrs] : n \in 0..MaxAttrs}
RECURSIVE Cat(_)
Cat(ss) == IF ss = <<>> THEN <<>> ELSE ss[1] \o Cat(Tail(ss))
LinesOf == {<<"x", " ", "<", "a">> \o Cat(as) \o c \o <<" ", "y">> : as \in AttrSeqs, c \in Closers} \cup Extra
VARIABLES l, done
MInit == l \in LinesOf /\ done = FALSE
MNext == /\ ~done /\ done' = TRUE /\ UNCHANGED l
         /\ PrintT(ToJson([l |-> l, html |-> Render(Inline4(l))]))
WellFormed == TRUE
=============================================================================
