CONSTANT MaxLen = 7
INIT MInit
NEXT MNext
INVARIANT WellFormed
CHECK_DEADLOCK FALSE
