CONSTANTS Procs = {"rename"}
          MaxPasses = 1
          MaxChunks = 2
SPECIFICATION Spec
INVARIANT AllOrNothing
CHECK_DEADLOCK FALSE
