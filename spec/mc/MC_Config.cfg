INIT MInit
NEXT MNext
CHECK_DEADLOCK FALSE
INVARIANT InvMostSpecific
