INIT MInit
NEXT MNext
INVARIANT Refl
INVARIANT Symm
INVARIANT Trans
INVARIANT LevelFree
INVARIANT TextBound
CHECK_DEADLOCK FALSE
