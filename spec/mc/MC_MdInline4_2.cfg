CONSTANT MaxAttrs = 2
INIT MInit
NEXT MNext
INVARIANT WellFormed
CHECK_DEADLOCK FALSE
