CONSTANTS
  Rules = {"a", "b", "c", "d"}
  Level <- LevelMap
  AllowSameLevel = TRUE
SPECIFICATION MSpec
INVARIANT Converged
PROPERTY LevelsIncrease
PROPERTY Terminates
CHECK_DEADLOCK FALSE
