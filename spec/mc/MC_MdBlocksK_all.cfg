CONSTANTS
  MaxLines = 6
  MaxDepth = 10
INIT Init
NEXT Next
INVARIANT StackLegal
CHECK_DEADLOCK FALSE
