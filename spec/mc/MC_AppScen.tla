---------------------------- MODULE MC_AppScen ----------------------------
(* Scenario-driven instance of App: TLC enumerates every abstract scenario
   (command x scheme selection x configuration state x continue-on-error x file kinds),
   drives App's actions along the script of that scenario and prints, at exit, the scenario
   together with the outcome the specification assigns to it.  The harness concretises each
   printed scenario (files, plugins, argv), runs the real command and compares. *)
EXTENDS App, TLC, Json

CONSTANTS MaxFiles, Cmds, SchemeSels, Cfgs, Kinds, CoeVals

(* --- scenario ---------------------------------------------------------------------- *)
VARIABLES sc,      \* [cmd, sel, cfg, coe, kinds]
          k,       \* index of the next script step of the current file
          done     \* printed
svars == <<vars, sc, k, done>>

FileCmds == {"scan", "fix"}
KindSeqs == UNION {[1..n -> Kinds] : n \in 0..MaxFiles}

Scenarios ==
  {[cmd |-> c, sel |-> s, cfg |-> g, coe |-> e, kinds |-> ks] :
      c \in Cmds, s \in SchemeSels, g \in Cfgs, e \in CoeVals, ks \in KindSeqs}

(* only meaningful combinations: file kinds only for scan/fix (stdin: exactly one) *)
Meaningful(s) ==
  /\ (s.cmd \in FileCmds) \/ (s.cmd = "stdin" /\ Len(s.kinds) = 1)
       \/ (s.cmd \notin FileCmds \cup {"stdin"} /\ s.kinds = <<>>)
  /\ s.cmd \notin FileCmds \cup {"stdin"} => s.coe = FALSE

(* the scheme in force once the configuration is loaded: argument beats configuration *)
SchemeOf(sel) ==
  CASE sel \in {"arg_minimal", "arg_minimal_cfg_default"} -> "minimal"
    [] sel \in {"arg_default", "arg_default_cfg_minimal"} -> "default"
    [] sel = "cfg_minimal" -> "minimal"
    [] OTHER -> "default"

(* outcomes decided before any file is looked at: <<category, scheme in force>> or <<>> *)
Early(s) ==
  IF s.cmd = "badarg" \/ s.sel = "arg_bad" THEN <<"ARGPARSE">>
  ELSE IF s.cmd = "none" THEN <<"COMMAND_LINE_ERROR", "default">>
  ELSE IF s.cmd = "version" THEN <<"SUCCESS", "default">>
  ELSE IF s.cfg = "badfile" THEN <<"SYSTEM_ERROR", "default">>
  ELSE IF s.sel = "cfg_bad" THEN <<"SYSTEM_ERROR", "default">>
  ELSE IF s.cfg = "strictbad" THEN <<"SYSTEM_ERROR", SchemeOf(s.sel)>>
  ELSE IF s.cmd \in {"plugins_list", "plugins_info_hit", "ext_list", "ext_info_hit"} THEN <<"SUCCESS", SchemeOf(s.sel)>>
  ELSE IF s.cmd \in {"plugins_info_miss", "ext_info_miss"} THEN <<"NO_FILES_TO_SCAN", SchemeOf(s.sel)>>
  ELSE IF s.cmd \in {"plugins_none", "ext_none"} THEN <<"COMMAND_LINE_ERROR", SchemeOf(s.sel)>>
  ELSE IF s.cmd = "list_some" THEN <<"SUCCESS", SchemeOf(s.sel)>>
  ELSE IF s.cmd \in {"list_none", "scan_missing", "fix_missing", "scan_good_missing", "fix_good_missing", "scan_good_noglob"}
       THEN <<"NO_FILES_TO_SCAN", SchemeOf(s.sel)>>          \* a path in error: nothing is processed, wherever it stands in the list
  ELSE <<>>

ModeOf(c) == CASE c = "scan" -> "scan" [] c = "fix" -> "fix" [] c = "stdin" -> "stdin" [] OTHER -> "other"

(* script of one file: the App actions the implementation performs for a file of this kind.
   perr: a rule raises while it is handed a token; perrl: while it is handed a line;
   terr: the parser raises; undec: the file is not valid UTF-8 (the error surfaces before
   any parsing, as an exception that reaches the top-level handler). *)
Script(m, kind, c) ==
  IF m \in {"scan", "stdin"} THEN
    CASE kind = "clean" -> <<"begin", "end_ok">>
      [] kind \in {"trig", "fixable"} -> <<"begin", "fail", "end_ok">>
      [] kind \in {"perr", "perrl"} -> IF c THEN <<"begin", "err_short", "end_bad">> ELSE <<"begin", "err_fatal", "exit">>
      [] kind = "terr" -> IF c THEN <<"begin", "pfail", "err_short", "end_bad">> ELSE <<"begin", "pfail", "exit">>
      [] kind = "undec" -> <<"begin", "exit">>
  ELSE
    CASE kind \in {"clean", "trig"} -> <<"begin", "lb", "tn", "td", "pe_f", "le", "end_ok">>
      [] kind = "fixable" -> <<"begin", "lb", "tn", "wbb", "wbe", "td", "pe_t", "le", "ann", "end_fixed">>
      [] kind = "perr" -> IF c THEN <<"begin", "lb", "err_short", "end_bad">> ELSE <<"begin", "lb", "err_fatal", "exit">>
      [] kind = "perrl" -> IF c THEN <<"begin", "lb", "tn", "td", "err_short", "end_bad">>
                                ELSE <<"begin", "lb", "tn", "td", "err_fatal", "exit">>
      [] kind = "terr" -> IF c THEN <<"begin", "lb", "pfail", "err_short", "end_bad">> ELSE <<"begin", "lb", "pfail", "exit">>
      [] kind = "undec" -> <<"begin", "lb", "exit">>

Do(label, f) ==
  CASE label = "begin" -> FileBegin(f)
    [] label = "fail" -> Failure(FALSE)
    [] label = "pfail" -> ParseFail
    [] label = "lb" -> LevelBegin(f, 0)
    [] label = "tn" -> TmpNew("t")
    [] label = "td" -> TmpDel("t")
    [] label = "wbb" -> WritebackBegin(f, "t")
    [] label = "wbe" -> WritebackEnd(f)
    [] label = "pe_t" -> PassEnd(f, TRUE)
    [] label = "pe_f" -> PassEnd(f, FALSE)
    [] label = "le" -> LevelEnd(f, FALSE, 0)
    [] label = "ann" -> Announce(f)
    [] label = "end_ok" -> FileEnd(f, TRUE, FALSE)
    [] label = "end_fixed" -> FileEnd(f, TRUE, TRUE)
    [] label = "end_bad" -> FileEnd(f, FALSE, FALSE)
    [] label = "err_short" -> ScanError(f, TRUE)
    [] label = "err_fatal" -> ScanError(f, FALSE)
    [] label = "exit" -> Exit("SYSTEM_ERROR", scheme, 1)

SInit == Init /\ sc \in {s \in Scenarios : Meaningful(s)} /\ k = 1 /\ done = FALSE

EarlyExit ==
  /\ pc = "init" /\ Early(sc) # <<>>
  /\ IF Early(sc)[1] = "ARGPARSE" THEN ArgparseExit(2)
     ELSE Exit(Early(sc)[1], Early(sc)[2], ExitTable(Early(sc)[2], Early(sc)[1]))
  /\ UNCHANGED <<sc, k, done>>

Begin ==
  /\ pc = "init" /\ Early(sc) = <<>>
  /\ Start(ModeOf(sc.cmd), SchemeOf(sc.sel), sc.coe)
  /\ UNCHANGED <<sc, k, done>>

CurFile == IF cur # 0 THEN cur ELSE last + 1

StepFile ==
  /\ pc = "files" /\ mode # "other" /\ CurFile <= Len(sc.kinds)
  /\ LET f == CurFile
         s == Script(mode, sc.kinds[f], coe) IN
       /\ k <= Len(s)
       /\ Do(s[k], f)
       /\ k' = IF k = Len(s) THEN 1 ELSE k + 1
  /\ UNCHANGED <<sc, done>>

NormalExit ==
  /\ pc = "files" /\ ~fatal /\ cur = 0
  /\ mode # "other" /\ last = Len(sc.kinds)
  /\ LET cat == IF Len(sc.kinds) = 0 THEN "NO_FILES_TO_SCAN" ELSE ExpectedCategory
     IN Exit(cat, scheme, ExitTable(scheme, cat))
  /\ UNCHANGED <<sc, k, done>>

Report ==
  /\ pc = "exited" /\ ~done
  /\ done' = TRUE
  /\ PrintT(ToJson([sc |-> sc, category |-> exitCat, code |-> exitCode, announced |-> announced,
                    changed |-> changed, visited |-> visited, failed |-> failed, nfail |-> nfail,
                    fatal |-> fatal, midfile |-> cur]))
  /\ UNCHANGED <<vars, sc, k>>

SNext == EarlyExit \/ Begin \/ StepFile \/ NormalExit \/ Report
SSpec == SInit /\ [][SNext]_svars

(* every scenario runs to completion: no scenario gets stuck in a state the guards refuse *)
Progress == (pc = "exited" /\ done) \/ ENABLED SNext
=============================================================================
