------------------------------ MODULE MC_MdInline ------------------------------
(* every line of at most MaxLen characters over {a, space, *, _} that does not start or end with a space *)
EXTENDS MdInline, TLC, Json
CONSTANT MaxLen
Alphabet == {"a", " ", "*", "_"}
VARIABLES l, done
MInit == /\ l \in UNION {[1..n -> Alphabet] : n \in 1..MaxLen}
         /\ l[1] # " " /\ l[Len(l)] # " " /\ done = FALSE
MNext == /\ ~done /\ done' = TRUE /\ UNCHANGED l
         /\ PrintT(ToJson([l |-> l, html |-> Render(Emph(l))]))
WellFormed == Balanced(Emph(l), <<>>)
DelimsConserved == Conserved(l)
=============================================================================
