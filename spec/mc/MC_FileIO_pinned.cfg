CONSTANTS Procs = {"trunc"}
          MaxPasses = 2
          MaxChunks = 2
SPECIFICATION Spec
INVARIANT TypeOK
INVARIANT Completes
CHECK_DEADLOCK FALSE
