INIT MInit
NEXT MNext
INVARIANT NoSpaceInAuto
INVARIANT Partition
CHECK_DEADLOCK FALSE
