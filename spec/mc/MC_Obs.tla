-------------------------------- MODULE MC_Obs --------------------------------
(* Obs on its own: whatever is observed, the bound function never changes a value once bound
   (so two disagreeing observations of one key can never both be accepted). *)
EXTENDS Obs
Keys == {"k1", "k2"}
Vals == {"a", "b"}
MNext == \E k \in Keys, v \in Vals, f \in BOOLEAN : Observe(k, v, f)
Stable == [][\A k \in DOMAIN verdict : k \in DOMAIN verdict' /\ verdict'[k] = verdict[k]]_verdict
=============================================================================
