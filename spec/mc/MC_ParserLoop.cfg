CONSTANT NLines = 5
SPECIFICATION PSpec
INVARIANT LineCounterSane
PROPERTY Termination
CHECK_DEADLOCK FALSE
