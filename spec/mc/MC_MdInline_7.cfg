CONSTANT MaxLen = 7
INIT MInit
NEXT MNext
INVARIANT WellFormed
INVARIANT DelimsConserved
CHECK_DEADLOCK FALSE
