CONSTANT MaxLen = 6
INIT MInit
NEXT MNext
INVARIANT WellFormed
INVARIANT DelimsConserved
CHECK_DEADLOCK FALSE
