CONSTANTS
  Plugins = {"a", "b"}
  MaxTok = 2
  MaxLin = 2
INIT MInit
NEXT MStep
CHECK_DEADLOCK FALSE
CONSTRAINT Bound
INVARIANT DisabledSilent
INVARIANT Counts
PROPERTY ServedAtEnd
