------------------------------ MODULE MC_Config ------------------------------
(* Complete enumeration of the `enabled` lattice: every combination of {unset, true, false} in the four
   file layers x command-line form x default-enabled / default-disabled rule.  (How a layer is written --
   file format, id or alias -- is a concretisation dimension added by the harness.)
   And of the item lattice: layer values over {unset, a, b, bad} x strict. *)
EXTENDS Config, TLC, Json
Tri == {"unset", "true", "false"}
Cmd == {"none", "e", "d", "both"}
IVals == {"unset", "a", "b", "bad"}
Acc(v) == v \in {"a", "b"}

VARIABLES kind, vals, cmd, default, strict, done
mvars == <<kind, vals, cmd, default, strict, done>>

MInit ==
  /\ done = FALSE
  /\ \/ kind = "enabled" /\ vals \in [1..4 -> Tri] /\ cmd \in Cmd /\ default \in BOOLEAN /\ strict = FALSE
     \/ kind = "item" /\ vals \in [1..4 -> IVals] /\ cmd = "none" /\ default = FALSE /\ strict \in BOOLEAN
D == cmd \in {"d", "both"}
En == cmd \in {"e", "both"}
Report ==
  /\ ~done /\ done' = TRUE /\ UNCHANGED <<kind, vals, cmd, default, strict>>
  /\ IF kind = "enabled"
     THEN PrintT(ToJson([kind |-> kind, vals |-> vals, cmd |-> cmd, default |-> default,
                         enabled |-> Enabled(default, D, En, vals), layer |-> DecidingLayer(D, En, vals)]))
     ELSE PrintT(ToJson([kind |-> kind, vals |-> vals, strict |-> strict, value |-> Item("dflt", vals, Acc, strict)]))
MNext == Report
InvMostSpecific == kind = "enabled" => MostSpecificWins(default, D, En, vals)
=============================================================================
