------------------------------ MODULE MC_MdInline2 ------------------------------
(* every line of at most MaxLen characters over {a, space, *, `, \} (code spans, escapes, emphasis together) *)
EXTENDS MdInline, TLC, Json
CONSTANT MaxLen
Alphabet == {"a", " ", "*", "`", "\\"}
VARIABLES l, done
MInit == /\ l \in UNION {[1..n -> Alphabet] : n \in 1..MaxLen}
         /\ l[1] # " " /\ l[Len(l)] # " " /\ done = FALSE
MNext == /\ ~done /\ done' = TRUE /\ UNCHANGED l
         /\ PrintT(ToJson([l |-> l, html |-> Render(Inline2(l))]))
WellFormed == Balanced(Inline2(l), <<>>)
=============================================================================
