CONSTANTS Procs = {"rename"}
          MaxPasses = 2
          MaxChunks = 2
SPECIFICATION Spec
INVARIANT AllOrNothing
CHECK_DEADLOCK FALSE
