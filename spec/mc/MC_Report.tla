------------------------------ MODULE MC_Report ------------------------------
(* Report on its own, two lines of length 0..1: whatever sequence of failures the guards admit is
   sorted, duplicate-free and in range. *)
EXTENDS Report
MNext ==
  \/ \E a \in 0..1, b \in 0..1 : Begin(<<a, b>>, <<a, b>>)
  \/ \E l \in 0..3, c \in 0..3, k \in 1..2 : Failure(l, c, k, IF k = 1 THEN "R1" ELSE "R2", "m")
  \/ End(TRUE)
AllInRange == \A t \in seen : state = "open" => (t[1] \in 1..Len(lens) /\ t[2] \in 1..(lens[t[1]] + 1))
NoDup == Cardinality(seen) <= 2 * 2 * 2
Sorted == [][state = "open" /\ state' = "open" /\ last' # last => Leq(last, last')]_rvars
=============================================================================
