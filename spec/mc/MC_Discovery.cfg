CONSTANTS
  MaxArgs = 2
  MaxEntries = 5
  NExt = 3
INIT MInit
NEXT MNext
CHECK_DEADLOCK FALSE
INVARIANT InvOrder
INVARIANT InvIdem
INVARIANT InvRecurse
INVARIANT InvEligible
