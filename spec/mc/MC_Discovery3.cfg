CONSTANTS
  MaxArgs = 3
  MaxEntries = 3
  NExt = 2
INIT MInit
NEXT MNext
CHECK_DEADLOCK FALSE
INVARIANT InvOrder
INVARIANT InvIdem
INVARIANT InvRecurse
INVARIANT InvEligible
