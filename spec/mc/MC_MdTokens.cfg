INIT TInit
NEXT MNext
INVARIANT WellNested
INVARIANT EndedEmpty
CHECK_DEADLOCK FALSE
