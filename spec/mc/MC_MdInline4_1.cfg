CONSTANT MaxAttrs = 1
INIT MInit
NEXT MNext
INVARIANT WellFormed
CHECK_DEADLOCK FALSE
