CONSTANTS
  MaxLines = 3
  MaxDepth = 8
INIT Init
NEXT Next
VIEW View
INVARIANT StackLegal
CHECK_DEADLOCK FALSE
