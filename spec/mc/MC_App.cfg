CONSTANTS
  Files = {1, 2}
  MaxFail = 1
  Temps = {"t1", "t2"}
  Levels = {0, 1}
INIT Init
NEXT Next
CONSTRAINT Bound
CHECK_DEADLOCK FALSE
INVARIANT TypeOK
INVARIANT ChangedIffAnnounced
INVARIANT AnnouncedOnlyIfChanged
INVARIANT ScanReadOnly
INVARIANT ErrorNeverMasked
INVARIANT FixedCodeIffAnnounced
INVARIANT ExitFollowsTable
