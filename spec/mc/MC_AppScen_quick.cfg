CONSTANTS
  Files = {1, 2, 3, 4}
  MaxFiles = 2
  Cmds = {"scan", "fix", "stdin", "list_some", "list_none", "scan_missing", "fix_missing", "scan_good_missing", "fix_good_missing", "scan_good_noglob", "plugins_list", "plugins_info_hit", "plugins_info_miss", "plugins_none", "ext_list", "ext_info_hit", "ext_info_miss", "ext_none", "version", "none", "badarg"}
  SchemeSels = {"none", "arg_default", "arg_minimal", "cfg_default", "cfg_minimal", "cfg_bad", "arg_bad", "arg_minimal_cfg_default", "arg_default_cfg_minimal"}
  Cfgs = {"ok", "badfile", "strictbad"}
  Kinds = {"clean", "trig", "fixable", "perr", "perrl", "terr", "undec"}
  CoeVals = {TRUE, FALSE}
INIT SInit
NEXT SNext
CHECK_DEADLOCK FALSE
INVARIANT TypeOK
INVARIANT ChangedIffAnnounced
INVARIANT AnnouncedOnlyIfChanged
INVARIANT ScanReadOnly
INVARIANT ErrorNeverMasked
INVARIANT FixedCodeIffAnnounced
INVARIANT ExitFollowsTable
INVARIANT NoTempAtExit
INVARIANT Progress
