-------------------------------- MODULE MC_Ext --------------------------------
(* For every abstract parser that satisfies Inert (3 extensions, 2 documents, parse results in a 2-element
   set), SameEffectiveSameParse holds: the grouping the checks use is a consequence of the property. *)
EXTENDS FiniteSets, TLC
E == {"a", "b", "c"}
D == {"d1", "d2"}
T(d) == IF d = "d1" THEN {"a"} ELSE {"b", "c"}
VARIABLE parse
MInit == parse \in [(SUBSET E) \X D -> {0, 1}]
MNext == UNCHANGED parse
P(S, d) == parse[<<S, d>>]
InertHolds == \A d \in D : \A S \in SUBSET E : P(S, d) = P(S \cap T(d), d)
Consequence == InertHolds => \A d \in D : \A S1, S2 \in SUBSET E : (S1 \cap T(d)) = (S2 \cap T(d)) => P(S1, d) = P(S2, d)
=============================================================================
