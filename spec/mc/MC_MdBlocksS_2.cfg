CONSTANTS
  MaxLines = 2
  MaxDepth = 8
INIT Init
NEXT Next
INVARIANT StackLegal
CHECK_DEADLOCK FALSE
