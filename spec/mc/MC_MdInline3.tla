------------------------------ MODULE MC_MdInline3 ------------------------------
(* every line of at most MaxLen characters over {a, [, ], (, ), *} (inline links and emphasis together) *)
EXTENDS MdInline, TLC, Json
CONSTANT MaxLen
Alphabet == {"a", "[", "]", "(", ")", "*"}
VARIABLES l, done
MInit == /\ l \in UNION {[1..n -> Alphabet] : n \in 1..MaxLen}
         /\ done = FALSE
MNext == /\ ~done /\ done' = TRUE /\ UNCHANGED l
         /\ PrintT(ToJson([l |-> l, html |-> Render(Inline3(l))]))
WellFormed == Balanced(Inline3(l), <<>>)
=============================================================================
