------------------------------ MODULE MC_Pragma ------------------------------
(* Every failure set over 3 lines x 2 rules, every insertion point, every command. *)
EXTENDS Pragma, TLC
R == {"r1", "r2"}
Fs == SUBSET {[line |-> l, rule |-> r] : l \in 1..3, r \in R}
Cmds == {[kind |-> kd, n |-> n, ids |-> ids] : kd \in {"next", "num", "bad"}, n \in 0..3, ids \in SUBSET R}
VARIABLES F, k, cmd
MInit == F \in Fs /\ k \in 1..4 /\ cmd \in {c \in Cmds : c.kind = "num" => c.n >= 1}
MNext == UNCHANGED <<F, k, cmd>>
Inv1 == OnlyNamedRulesOnCoveredLines(F, k, cmd)
Inv2 == BadSuppressesNothing(F, k, cmd)
Inv3 == NumOneIsNext(F, k, cmd.ids)
Inv5 == SingleIsMulti(F, k, cmd)
Inv4 == Cardinality(Expected(F, k, cmd)) <= Cardinality(F)
=============================================================================
