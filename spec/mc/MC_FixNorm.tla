------------------------------ MODULE MC_FixNorm ------------------------------
(* Equivalent is an equivalence relation on small block sequences, and it is not the identity nor the
   universal relation (non-vacuity): a level change is allowed, a text change is not. *)
EXTENDS FixNorm, TLC
Blocks == {[k |-> kd, t |-> tx, lv |-> l, links |-> <<>>] : kd \in {"h", "p"}, tx \in {"a", "b"}, l \in 1..2}
Seqs == {<<>>} \cup {<<x>> : x \in Blocks} \cup {<<x, y>> : x \in Blocks, y \in Blocks}
VARIABLES A, B, C
MInit == A \in Seqs /\ B \in Seqs /\ C \in {<<>>} \cup {<<x>> : x \in Blocks}
MNext == UNCHANGED <<A, B, C>>
Refl == Equivalent(A, A)
Symm == Equivalent(A, B) => Equivalent(B, A)
Trans == (Equivalent(A, C) /\ Equivalent(C, B)) => Equivalent(A, B)
LevelFree == Equivalent(<<[k |-> "h", t |-> "a", lv |-> 1, links |-> <<>>]>>, <<[k |-> "h", t |-> "a", lv |-> 2, links |-> <<>>]>>)
TextBound == ~Equivalent(<<[k |-> "p", t |-> "a", lv |-> 1, links |-> <<>>]>>, <<[k |-> "p", t |-> "b", lv |-> 1, links |-> <<>>]>>)
=============================================================================
