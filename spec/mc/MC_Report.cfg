INIT RInit
NEXT MNext
INVARIANT AllInRange
INVARIANT NoDup
PROPERTY Sorted
CHECK_DEADLOCK FALSE
