CONSTANTS
  Rules = {"a", "b", "c", "d"}
  Level <- LevelMap
  AllowSameLevel = FALSE
SPECIFICATION MSpec
INVARIANT Converged
PROPERTY LevelsIncrease
PROPERTY Terminates
CHECK_DEADLOCK FALSE
