CONSTANTS Procs = {"rename"}
          MaxPasses = 2
          MaxChunks = 2
SPECIFICATION Spec
INVARIANT TypeOK
INVARIANT AtomicTarget
INVARIANT Completes
CHECK_DEADLOCK FALSE
