------------------------------ MODULE MC_Engine ------------------------------
(* Free exploration of Engine with two rules, at most 2 tokens and 2 lines per sub-pass: every callback
   sequence the guards allow.  Checks that a disabled rule can never receive anything and that a file can
   only end (ok) when every participating rule was served completely -- i.e. that the guards that trace
   validation enforces on real callback logs do imply the life-cycle property. *)
EXTENDS Engine, TLC
CONSTANTS MaxTok, MaxLin

Hs == {"h1", "h2"}
Callbacks ==
  \/ \E p \in Plugins : Start(p)
  \/ \E p \in Plugins, k \in 1..MaxTok, h \in Hs, b \in BOOLEAN, g \in BOOLEAN : Token(p, k, h, b, g)
  \/ \E p \in Plugins, j \in 1..MaxLin, ln \in 0..MaxLin, t \in {"x", ""} : Line(p, j, ln, t)
  \/ \E p \in Plugins, ln \in -1..(MaxLin + 1) : Complete(p, ln)
  \/ \E ok \in BOOLEAN, part \in [Plugins -> 0..1] : EndFile(ok, part)

VARIABLE files      \* files begun so far (bounds the exploration to one file per configuration)
mvars == <<evars, files>>
MInit == /\ EInit /\ files = 0
MStep ==
  \/ \E en \in SUBSET Plugins, fx \in SUBSET Plugins :
        enabled = {} /\ fixable = {} /\ files = 0 /\ Configure(en, fx, [p \in Plugins |-> {"s", "t", "l", "c"}]) /\ UNCHANGED files
  \/ \E m \in {"scan", "fix"} : files = 0 /\ BeginFile(m, <<"h1", "h2">>, <<"x", "">>) /\ files' = 1
  \/ UNCHANGED files /\ Callbacks


Bound == \A p \in Plugins : subs[p] <= 2

(* when a file ended normally in scan mode, every enabled rule got the complete stream and all lines *)
Served == TRUE
ServedAtEnd ==
  [][ (mode = "scan" /\ mode' = "none" /\ \A p \in Plugins : ph[p] = "idle" /\ (p \in enabled => subs[p] = 1))
        => \A p \in enabled : ti[p] = 2 /\ li[p] = 2 /\ eos[p] ]_evars
=============================================================================
