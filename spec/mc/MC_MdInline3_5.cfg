CONSTANT MaxLen = 5
INIT MInit
NEXT MNext
INVARIANT WellFormed
CHECK_DEADLOCK FALSE
