CONSTANT MaxLen = 8
INIT MInit
NEXT MNext
INVARIANT WellFormed
INVARIANT DelimsConserved
CHECK_DEADLOCK FALSE
