CONSTANTS
  MaxLines = 4
  MaxDepth = 6
INIT Init
NEXT Next
VIEW View
INVARIANT StackLegal
CHECK_DEADLOCK FALSE
