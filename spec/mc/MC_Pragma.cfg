INIT MInit
NEXT MNext
INVARIANT Inv1
INVARIANT Inv2
INVARIANT Inv3
INVARIANT Inv4
INVARIANT Inv5
CHECK_DEADLOCK FALSE
