------------------------------ MODULE MC_App ------------------------------
(* Free exploration of App: every behaviour the action guards allow, small constants.
   Shows that the guards (what trace validation enforces on real runs) imply the
   properties (the invariants of App). *)
EXTENDS App, TLC
CONSTANTS MaxFail, Temps, Levels

Next ==
  \/ \E m \in Modes, s \in Schemes, c \in BOOLEAN : Start(m, s, c)
  \/ \E f \in Files : FileBegin(f)
  \/ \E b \in BOOLEAN : nfail < MaxFail /\ Failure(b)
  \/ \E f \in Files, lv \in Levels : LevelBegin(f, lv)
  \/ \E t \in Temps : TmpNew(t)
  \/ \E t \in Temps : TmpDel(t)
  \/ \E f \in Files, t \in Temps : WritebackBegin(f, t)
  \/ \E f \in Files : WritebackEnd(f)
  \/ \E f \in Files, b \in BOOLEAN : PassEnd(f, b)
  \/ \E f \in Files, k \in BOOLEAN, lv \in Levels : LevelEnd(f, k, lv)
  \/ \E f \in Files, b \in BOOLEAN : ScanError(f, b)
  \/ ParseFail
  \/ \E f \in Files : Announce(f)
  \/ \E f \in Files, a \in BOOLEAN, b \in BOOLEAN : FileEnd(f, a, b)
  \/ \E c \in Categories, s \in Schemes, k \in 0..3 : Exit(c, s, k)

Spec == Init /\ [][Next]_vars
Bound == wb <= 2
====
