INIT OInit
NEXT MNext
PROPERTY Stable
INVARIANT Functional
CHECK_DEADLOCK FALSE
