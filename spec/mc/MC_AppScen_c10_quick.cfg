CONSTANTS
  Files = {1, 2, 3, 4}
  MaxFiles = 3
  Cmds = {"scan", "fix", "stdin", "list_some", "list_none", "scan_missing", "fix_missing", "scan_good_missing", "fix_good_missing", "scan_good_noglob"}
  SchemeSels = {"none", "arg_minimal", "cfg_minimal", "arg_default_cfg_minimal", "arg_minimal_cfg_default"}
  Cfgs = {"ok"}
  Kinds = {"clean", "trig", "fixable", "perr", "undec"}
  CoeVals = {TRUE, FALSE}
INIT SInit
NEXT SNext
CHECK_DEADLOCK FALSE
INVARIANT TypeOK
INVARIANT ChangedIffAnnounced
INVARIANT AnnouncedOnlyIfChanged
INVARIANT ScanReadOnly
INVARIANT ErrorNeverMasked
INVARIANT FixedCodeIffAnnounced
INVARIANT ExitFollowsTable
INVARIANT NoTempAtExit
INVARIANT Progress
