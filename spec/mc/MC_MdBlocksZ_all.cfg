CONSTANTS
  MaxLines = 4
  MaxDepth = 10
INIT Init
NEXT Next
INVARIANT StackLegal
CHECK_DEADLOCK FALSE
