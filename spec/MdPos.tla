-------------------------------- MODULE MdPos --------------------------------
(* Position truth (property C05): the line and column of a token point at the element's own opening
   text in the source.  For each positioned token the harness logs the kind, line and column, the number
   of lines, the length of the line (raw and with tabs expanded to tab stop 4), the character at the
   position (raw reading and tab-expanded reading -- the implementation reports visual columns on lines
   with tabs) and, for kinds whose position starts a region, a region fact computed from the source.
   The token is TRUE iff the line exists, the column lies in the line, and one of the two readings
   shows an opener of that kind. *)
EXTENDS Naturals, Sequences

Openers(kind) ==
  CASE kind = "atx" -> {"#"}
    [] kind \in {"ulist"} -> {"-", "+", "*"}
    [] kind = "olist" -> {"0", "1", "2", "3", "4", "5", "6", "7", "8", "9"}
    [] kind = "li" -> {"-", "+", "*", "0", "1", "2", "3", "4", "5", "6", "7", "8", "9"}
    [] kind = "fcode-block" -> {"`", "~"}
    [] kind = "block-quote" -> {">"}
    [] kind = "tbreak" -> {"-", "*", "_"}
    [] kind \in {"link", "link-ref-def"} -> {"["}
    [] kind = "image" -> {"!"}
    [] kind \in {"emphasis", "end-emphasis"} -> {"*", "_", "~"}
    [] kind = "icode-span" -> {"`"}
    [] kind \in {"uri-autolink", "email-autolink", "raw-html"} -> {"<"}
    [] OTHER -> {}
RegionKinds == {"BLANK", "icode-block", "html-block", "para", "setext", "text", "hard-break", "linkdef", "front-matter"}

InRange(line, col, nlines, len, vlen) ==
  /\ line >= 1 /\ line <= nlines
  /\ col >= 1 /\ col <= (IF vlen > len THEN vlen ELSE len) + 1

(* region facts: "blank-rest", "indent-before", "lt-after-ws", "nonblank", "any" are computed by the harness from the source *)
RegionOk(kind, facts) ==
  CASE kind = "BLANK" -> "blank-rest" \in facts
    [] kind = "icode-block" -> "indent-before" \in facts
    [] kind = "html-block" -> "lt-after-ws" \in facts
    [] kind \in {"para", "setext"} -> "nonblank" \in facts
    [] OTHER -> TRUE

True(kind, line, col, nlines, len, vlen, chRaw, chVis, facts) ==
  /\ InRange(line, col, nlines, len, vlen)
  /\ IF kind \in RegionKinds THEN RegionOk(kind, facts)
     ELSE (chRaw \in Openers(kind) \/ chVis \in Openers(kind))
=============================================================================
