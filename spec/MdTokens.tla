------------------------------ MODULE MdTokens ------------------------------
(* The discipline of the token stream the parser hands to rules and generators (property C04),
   as a push-down automaton.  Every token is one action:
     Open(name, class, id)     a start token that requires an end token
     Close(name, startId)      an end token: closes the innermost open token, and refers to it
     Atom(name, class)         a token without an end token
     End                       end of the document: nothing is left open
   Classes: container (block quote, lists), leaf (paragraph, headings, code blocks, html block,
   thematic break, blank line, link reference definition), inline.  Containers hold containers
   and leaf blocks; leaf blocks hold inline tokens only; inline tokens nest in inline tokens
   (emphasis, links).  A new-list-item token (`li`) appears only directly inside its list. *)
EXTENDS Naturals, Sequences

VARIABLES stack, ended         \* stack of [n |-> name, c |-> class, id |-> index of the start token]
mtvars == <<stack, ended>>
TInit == stack = <<>> /\ ended = FALSE

Top == stack[Len(stack)]
Scope == IF stack = <<>> THEN "doc" ELSE Top.c
Lists == {"ulist", "olist"}

ClassOk(scope, c) ==
  CASE c = "container" -> scope \in {"doc", "container"}
    [] c = "leaf" -> scope \in {"doc", "container"}
    [] c = "inline" -> scope \in {"leaf", "inline"}
    [] OTHER -> FALSE

Open(n, c, id) ==
  /\ ~ended /\ ClassOk(Scope, c)
  /\ stack' = Append(stack, [n |-> n, c |-> c, id |-> id]) /\ UNCHANGED ended

Close(n, startId) ==
  /\ ~ended /\ stack # <<>>
  /\ Top.n = n                          \* closes the most recently opened, still open token
  /\ Top.id = startId                   \* and refers to it
  /\ stack' = SubSeq(stack, 1, Len(stack) - 1) /\ UNCHANGED ended

Atom(n, c) ==
  /\ ~ended
  /\ IF n = "li" THEN stack # <<>> /\ Top.n \in Lists       \* directly inside its list
     ELSE ClassOk(Scope, c)
  /\ UNCHANGED <<stack, ended>>

End == ~ended /\ stack = <<>> /\ ended' = TRUE /\ UNCHANGED stack

(* the nesting the guards maintain *)
WellNested == \A k \in 1..Len(stack) :
  LET below == IF k = 1 THEN "doc" ELSE stack[k - 1].c IN ClassOk(below, stack[k].c)
=============================================================================
