CONSTANT Files <- TraceFiles
INIT TraceInit
NEXT TraceNext
CHECK_DEADLOCK FALSE
