----------------------------- MODULE Trace_Pragma -----------------------------
(* Each trace is one observation: the failures of d, the inserted pragmas (final line k, parsed command with
   the rule identifiers resolved to canonical ids by the harness from `plugins list`), the failures of d+
   outside line k and whether a pragma error was reported on line k. *)
EXTENDS Pragma, TLC, Json, IOUtils
Traces == JsonDeserialize(IOEnv.TRACE_FILE)
N == Len(Traces)
VARIABLES tid, verdict
SetOf(s) == {s[j] : j \in 1..Len(s)}
TraceInit == tid \in 1..N /\ verdict = "run"
Judge ==
  /\ verdict = "run"
  /\ LET t == Traces[tid][1]
         ps == [j \in 1..Len(t.pragmas) |-> [k |-> t.pragmas[j].k,
                                              cmd |-> [kind |-> t.pragmas[j].kind, n |-> t.pragmas[j].n, ids |-> SetOf(t.pragmas[j].ids)]]]
         exp == {f \in ExpectedMulti(SetOf(t.base), ps) : f.line \notin PragmaLines(ps)}
         got == SetOf(t.observed)
         errs == SetOf(t.errors)
         why == IF got # exp THEN (IF \E f \in exp : f \notin got THEN "failure-lost" ELSE "failure-not-suppressed-or-new")
                ELSE IF errs # ErrorLines(ps) THEN (IF \E l \in errs : l \notin ErrorLines(ps) THEN "spurious-pragma-error" ELSE "malformed-pragma-not-reported")
                ELSE "" IN
       /\ verdict' = IF why = "" THEN "accept" ELSE "reject"
       /\ PrintT(ToJson([v |-> IF why = "" THEN "ACCEPT" ELSE "REJECT", tid |-> tid, pos |-> 1, what |-> why,
                         missing |-> exp \ got, extra |-> got \ exp]))
  /\ UNCHANGED tid
TraceNext == Judge
=============================================================================
