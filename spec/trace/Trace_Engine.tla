---------------------------- MODULE Trace_Engine ----------------------------
(* Batched validation of recorded callback logs (recording plugins loaded with --add-plugin, plus the
   file / pass boundaries from the probe) against Engine.  Each trace is one run: a `configure` event
   (which recorders are enabled / fix-capable / which callbacks they implement -- from the plugins' own
   declarations), then per file `begin_file` (mode, expected token hashes and line texts computed by the
   harness from the file's bytes with the parser and str.split), the callbacks, `end_file`. *)
EXTENDS Engine, TLC, Json, IOUtils

Traces == JsonDeserialize(IOEnv.TRACE_FILE)
N == Len(Traces)
AllPlugins == {"VHR001", "VHR002", "VHR003", "VHR010", "VHR011", "VHR015", "VHR020"}

VARIABLES tid, i, verdict
tvars == <<evars, tid, i, verdict>>

SetOf(s) == {s[k] : k \in 1..Len(s)}
TraceInit == EInit /\ tid \in 1..N /\ i = 0 /\ verdict = "run"

Consume ==
  /\ verdict = "run" /\ i < Len(Traces[tid])
  /\ LET e == Traces[tid][i + 1] IN
       \/ e.ev = "configure" /\ Configure(SetOf(e.enabled), SetOf(e.fixable), [p \in Plugins |-> SetOf(e.cbs[p])])
       \/ e.ev = "begin_file" /\ BeginFile(e.mode, e.tokens, e.lines)
       \/ e.ev = "cb" /\ e.k = "start" /\ Start(e.p)
       \/ e.ev = "cb" /\ e.k = "token" /\ Token(e.p, e.i, e.h, e.eos, e.pg)
       \/ e.ev = "cb" /\ e.k = "line" /\ Line(e.p, e.j, e.ln, e.text)
       \/ e.ev = "cb" /\ e.k = "complete" /\ Complete(e.p, e.ln)
       \/ e.ev = "end_file" /\ EndFile(e.ok, e.part)
  /\ i' = i + 1 /\ UNCHANGED <<tid, verdict>>

Reject ==
  /\ verdict = "run" /\ i < Len(Traces[tid])
  /\ ~ENABLED Consume
  /\ verdict' = "reject"
  /\ UNCHANGED <<evars, tid, i>>
  /\ LET e == Traces[tid][i + 1]
         p == IF e.ev = "cb" THEN e.p ELSE "" IN
     PrintT(ToJson([v |-> "REJECT", tid |-> tid, pos |-> i + 1, what |-> e.ev, k |-> IF e.ev = "cb" THEN e.k ELSE "",
                    p |-> p, mode |-> mode,
                    state |-> IF p \in Plugins THEN [ph |-> ph[p], ti |-> ti[p], li |-> li[p], eos |-> eos[p], subs |-> subs[p],
                                                     enabled |-> p \in enabled, fixable |-> p \in fixable]
                              ELSE [subs |-> subs, ph |-> ph]]))

Finish ==
  /\ verdict = "run" /\ i = Len(Traces[tid])
  /\ verdict' = IF mode = "none" THEN "accept" ELSE "reject"
  /\ UNCHANGED <<evars, tid, i>>
  /\ PrintT(ToJson([v |-> IF mode = "none" THEN "ACCEPT" ELSE "REJECT", tid |-> tid, pos |-> i + 1, what |-> "end-of-trace"]))

TraceNext == Consume \/ Reject \/ Finish
=============================================================================
