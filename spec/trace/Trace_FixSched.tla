--------------------------- MODULE Trace_FixSched ---------------------------
(* Validation of the recorded fix schedule (probe events level_begin / level_end of every fix run)
   against the level discipline of FixSched.  The level of a rule is NOT logged: `lvl` is an unlogged
   variable that is bound the first time a rule appears in a fix list and that every later pass, of
   this and of every later file of the run, must agree with. *)
EXTENDS Integers, Sequences, FiniteSets, TLC, Json, IOUtils

Traces == JsonDeserialize(IOEnv.TRACE_FILE)
N == Len(Traces)
SetOf(s) == {s[k] : k \in 1..Len(s)}
Unknown == -1

VARIABLES tid, i, verdict,
          lvl,      \* rule -> level, for the rules seen so far in a fix list
          level,    \* level of the open / last pass of the current file (-1: none)
          open,     \* a pass is open
          fixl, coll
tvars == <<tid, i, verdict, lvl, level, open, fixl, coll>>

Known(r) == r \in DOMAIN lvl
TraceInit == /\ tid \in 1..N /\ i = 0 /\ verdict = "run" /\ lvl = <<>> /\ level = -1 /\ open = FALSE
             /\ fixl = {} /\ coll = {}

FileBegin == level' = -1 /\ open' = FALSE /\ UNCHANGED <<lvl, fixl, coll>>

PassBegin(L, F, C) ==
  /\ ~open /\ L > level                                         \* strictly increasing levels
  /\ F \cap C = {}
  /\ \A r \in F : IF Known(r) THEN lvl[r] = L ELSE TRUE                        \* a rule fixes at its own level only
  /\ \A r \in C : IF Known(r) THEN lvl[r] > L ELSE TRUE                        \* collectors are the rules of higher levels
  /\ \A r \in DOMAIN lvl : (lvl[r] = L => r \in F) /\ (lvl[r] > L => r \in C)   \* nobody is left out
  /\ (level = -1) => \A r \in DOMAIN lvl : lvl[r] >= L         \* the first pass is the lowest level
  /\ lvl' = [r \in DOMAIN lvl \cup F |-> IF r \in F THEN L ELSE lvl[r]]
  /\ level' = L /\ open' = TRUE /\ fixl' = F /\ coll' = C

PassEnd(T, keep, nxt) ==
  /\ open
  /\ T \subseteq coll                                            \* only collectors report triggers
  /\ keep = (T # {})                                             \* continue iff something was triggered
  /\ keep => /\ nxt > level
             /\ \A r \in T : IF Known(r) THEN lvl[r] >= nxt ELSE TRUE           \* the lowest triggered level is next
             /\ \E r \in T : IF Known(r) THEN lvl[r] = nxt ELSE TRUE
  /\ open' = FALSE /\ UNCHANGED <<lvl, level, fixl, coll>>

Consume ==
  /\ verdict = "run" /\ i < Len(Traces[tid])
  /\ LET e == Traces[tid][i + 1] IN
       \/ e.ev = "file_begin" /\ FileBegin
       \/ e.ev = "level_begin" /\ PassBegin(e.level, SetOf(e.fix_list), SetOf(e.collect_list))
       \/ e.ev = "level_end" /\ PassEnd(SetOf(e.triggers), e.keep, e.next_level)
  /\ i' = i + 1 /\ UNCHANGED <<tid, verdict>>

Reject ==
  /\ verdict = "run" /\ i < Len(Traces[tid]) /\ ~ENABLED Consume
  /\ verdict' = "reject" /\ UNCHANGED <<tid, i, lvl, level, open, fixl, coll>>
  /\ PrintT(ToJson([v |-> "REJECT", tid |-> tid, pos |-> i + 1, what |-> Traces[tid][i + 1].ev,
                    state |-> [level |-> level, open |-> open, lvl |-> lvl]]))
Finish ==
  /\ verdict = "run" /\ i = Len(Traces[tid])
  /\ verdict' = "accept" /\ UNCHANGED <<tid, i, lvl, level, open, fixl, coll>>
  /\ PrintT(ToJson([v |-> "ACCEPT", tid |-> tid, pos |-> i + 1, what |-> "end-of-trace"]))
TraceNext == Consume \/ Reject \/ Finish
=============================================================================
