------------------------------- MODULE Trace_Obs -------------------------------
(* Batched validation of observation logs against Obs.  One trace = everything observed about one
   subject (a document, or a group of documents); events [key, val, forbidden, src]. *)
EXTENDS Obs, Naturals, Sequences, Json, IOUtils

Traces == JsonDeserialize(IOEnv.TRACE_FILE)
N == Len(Traces)
VARIABLES tid, i, verdictState
tvars == <<verdict, tid, i, verdictState>>
TraceInit == OInit /\ tid \in 1..N /\ i = 0 /\ verdictState = "run"

Consume ==
  /\ verdictState = "run" /\ i < Len(Traces[tid])
  /\ LET e == Traces[tid][i + 1] IN Observe(e.key, e.val, e.forbidden)
  /\ i' = i + 1 /\ UNCHANGED <<tid, verdictState>>
Reject ==
  /\ verdictState = "run" /\ i < Len(Traces[tid]) /\ ~ENABLED Consume
  /\ verdictState' = "reject" /\ UNCHANGED <<verdict, tid, i>>
  /\ LET e == Traces[tid][i + 1] IN
     PrintT(ToJson([v |-> "REJECT", tid |-> tid, pos |-> i + 1, what |-> IF e.forbidden THEN "forbidden" ELSE "disagrees",
                    key |-> e.key, src |-> e.src, val |-> e.val,
                    bound |-> IF e.key \in DOMAIN verdict THEN verdict[e.key] ELSE ""]))
Finish ==
  /\ verdictState = "run" /\ i = Len(Traces[tid])
  /\ verdictState' = "accept" /\ UNCHANGED <<verdict, tid, i>>
  /\ PrintT(ToJson([v |-> "ACCEPT", tid |-> tid, pos |-> i + 1, what |-> "end-of-trace"]))
TraceNext == Consume \/ Reject \/ Finish
=============================================================================
