CONSTANT Plugins <- AllPlugins
INIT TraceInit
NEXT TraceNext
CHECK_DEADLOCK FALSE
INVARIANT DisabledSilent
