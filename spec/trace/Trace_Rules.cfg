INIT TraceInit
NEXT TraceNext
CHECK_DEADLOCK FALSE
