---------------------------- MODULE Trace_MdTokens ----------------------------
(* Batched validation of token streams against MdTokens (nesting) and MdPos (positions, block order).
   One trace = one document's token stream; events
     [k |-> "open"|"close"|"atom", n |-> name, c |-> class, s |-> id of the start token (own id for start tokens),
      blk |-> is a block token, pos |-> positioned?, line, col, nlines, len, vlen, chr, chv, facts] *)
EXTENDS MdTokens, MdPos, TLC, Json, IOUtils
Traces == JsonDeserialize(IOEnv.TRACE_FILE)
N == Len(Traces)
VARIABLES tid, i, verdict, lastLine
tvars == <<mtvars, tid, i, verdict, lastLine>>
SetOf(s) == {s[j] : j \in 1..Len(s)}
TraceInit == TInit /\ tid \in 1..N /\ i = 0 /\ verdict = "run" /\ lastLine = 0

PosOk(e) == ~e.pos \/ True(e.n, e.line, e.col, e.nlines, e.len, e.vlen, e.chr, e.chv, SetOf(e.facts))
OrderOk(e) == ~(e.pos /\ e.blk) \/ e.line >= lastLine          \* block tokens in non-decreasing line order

Consume ==
  /\ verdict = "run" /\ i < Len(Traces[tid])
  /\ LET e == Traces[tid][i + 1] IN
       /\ PosOk(e) /\ OrderOk(e)
       /\ \/ e.k = "open" /\ Open(e.n, e.c, e.s)
          \/ e.k = "close" /\ Close(e.n, e.s)
          \/ e.k = "atom" /\ Atom(e.n, e.c)
       /\ lastLine' = IF e.pos /\ e.blk THEN e.line ELSE lastLine
  /\ i' = i + 1 /\ UNCHANGED <<tid, verdict>>

Why(e) ==
  IF ~PosOk(e) THEN (IF ~InRange(e.line, e.col, e.nlines, e.len, e.vlen) THEN "position-out-of-range" ELSE "position-not-on-opener")
  ELSE IF ~OrderOk(e) THEN "block-order"
  ELSE IF e.k = "close" THEN (IF stack = <<>> THEN "close-on-empty" ELSE IF Top.n # e.n THEN "close-not-innermost" ELSE "end-token-refers-to-other-start")
  ELSE IF e.n = "li" THEN "li-outside-list"
  ELSE "class-nesting"
Reject ==
  /\ verdict = "run" /\ i < Len(Traces[tid]) /\ ~ENABLED Consume
  /\ verdict' = "reject" /\ UNCHANGED <<mtvars, tid, i, lastLine>>
  /\ LET e == Traces[tid][i + 1] IN
     PrintT(ToJson([v |-> "REJECT", tid |-> tid, pos |-> i + 1, what |-> Why(e), n |-> e.n,
                    scope |-> IF stack = <<>> THEN "doc" ELSE Top.n]))
Finish ==
  /\ verdict = "run" /\ i = Len(Traces[tid])
  /\ verdict' = "done" /\ UNCHANGED <<mtvars, tid, i, lastLine>>
  /\ PrintT(ToJson([v |-> IF stack = <<>> THEN "ACCEPT" ELSE "REJECT", tid |-> tid, pos |-> i + 1,
                    what |-> IF stack = <<>> THEN "end-of-trace" ELSE "left-open", n |-> IF stack = <<>> THEN "" ELSE Top.n, scope |-> ""]))
TraceNext == Consume \/ Reject \/ Finish
=============================================================================
