----------------------------- MODULE Trace_Report -----------------------------
EXTENDS Report, TLC, Json, IOUtils
Traces == JsonDeserialize(IOEnv.TRACE_FILE)
N == Len(Traces)
VARIABLES tid, i, verdict
tvars == <<rvars, tid, i, verdict>>
TraceInit == /\ tid \in 1..N /\ i = 0 /\ verdict = "run" /\ lens = <<>> /\ vlens = <<>> /\ last = <<0, 0, 0>> /\ seen = {} /\ state = "idle"

Consume ==
  /\ verdict = "run" /\ i < Len(Traces[tid])
  /\ LET e == Traces[tid][i + 1] IN
       \/ e.ev = "begin" /\ Begin(e.lens, e.vlens)
       \/ e.ev = "failure" /\ Failure(e.line, e.col, e.rk, e.rule, e.msg)
       \/ e.ev = "end" /\ End(e.ok)
  /\ i' = i + 1 /\ UNCHANGED <<tid, verdict>>
Why(e) ==
  IF e.ev # "failure" THEN e.ev
  ELSE IF ~(e.line >= 1 /\ e.line <= Len(lens)) THEN "line-out-of-range"
  ELSE IF ~InRange(e.line, e.col) THEN "column-out-of-range"
  ELSE IF ~Leq(<<last[1], last[2], last[3]>>, <<e.line, e.col, e.rk>>) THEN "not-ordered"
  ELSE IF <<e.line, e.col, e.rule, e.msg>> \in seen THEN "duplicate"
  ELSE "other"
Reject ==
  /\ verdict = "run" /\ i < Len(Traces[tid]) /\ ~ENABLED Consume
  /\ verdict' = "reject" /\ UNCHANGED <<rvars, tid, i>>
  /\ PrintT(ToJson([v |-> "REJECT", tid |-> tid, pos |-> i + 1, what |-> Why(Traces[tid][i + 1])]))
Finish ==
  /\ verdict = "run" /\ i = Len(Traces[tid])
  /\ verdict' = "accept" /\ UNCHANGED <<rvars, tid, i>>
  /\ PrintT(ToJson([v |-> IF state = "idle" THEN "ACCEPT" ELSE "REJECT", tid |-> tid, pos |-> i + 1, what |-> "end-of-trace"]))
TraceNext == Consume \/ Reject \/ Finish
=============================================================================
