-------------------------- MODULE Trace_ParserLoop --------------------------
(* pstep events of real parses validated against ParserLoop: the number of requeued lines is bound from the
   log, every other logged quantity (line counter, requeue length, flags) must be what the model computes. *)
EXTENDS ParserLoop, Sequences, TLC, Json, IOUtils
Traces == JsonDeserialize(IOEnv.TRACE_FILE)
N == Len(Traces)
TraceNLines == 100000
VARIABLES tid, i, verdict
tvars == <<plvars, tid, i, verdict>>
TraceInit == /\ tid \in 1..N /\ i = 0 /\ verdict = "run"
             /\ ln = 1 /\ rq = 0 /\ src = Traces[tid][1].src /\ ign = FALSE /\ closing = Traces[tid][1].closing_in
             /\ done = FALSE /\ lastStart = 0 /\ rep = FALSE
Consume ==
  /\ verdict = "run" /\ i < Len(Traces[tid])
  /\ LET e == Traces[tid][i + 1] IN
       /\ e.ln_in = ln /\ e.closing_in = closing /\ e.ign_in = ign /\ e.rq_in = rq        \* the state the code was in
       /\ \/ ~e.closing_in /\ e.requeued = 0 /\ Line
          \/ ~e.closing_in /\ e.requeued = 1 /\ ~e.ign_out /\ LineRepeat
          \/ ~e.closing_in /\ e.requeued > 0 /\ e.ign_out /\ LineRequeue(e.requeued)
          \/ e.closing_in /\ e.requeued > 0 /\ CloseRequeue(e.requeued)
          \/ e.closing_in /\ e.requeued = 0 /\ ~e.keep /\ Close
       /\ e.keep => (ln' = e.ln_out /\ rq' = e.rq_out /\ ign' = e.ign_out /\ closing' = e.closing_out)
  /\ i' = i + 1 /\ UNCHANGED <<tid, verdict>>
Reject ==
  /\ verdict = "run" /\ i < Len(Traces[tid]) /\ ~ENABLED Consume
  /\ verdict' = "reject" /\ UNCHANGED <<plvars, tid, i>>
  /\ PrintT(ToJson([v |-> "REJECT", tid |-> tid, pos |-> i + 1, what |-> "pstep",
                    state |-> [ln |-> ln, rq |-> rq, src |-> src, ign |-> ign, closing |-> closing, lastStart |-> lastStart, rep |-> rep]]))
Finish ==
  /\ verdict = "run" /\ i = Len(Traces[tid])
  /\ verdict' = "end" /\ UNCHANGED <<plvars, tid, i>>
  /\ PrintT(ToJson([v |-> IF done THEN "ACCEPT" ELSE "REJECT", tid |-> tid, pos |-> i + 1, what |-> "end-of-trace"]))
TraceNext == Consume \/ Reject \/ Finish
=============================================================================
