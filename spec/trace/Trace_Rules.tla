------------------------------ MODULE Trace_Rules ------------------------------
(* One trace = one (document, rule, configuration): the facts L and B, the configuration, and the set of lines the
   implementation reported for the rule.  TLC evaluates the documented condition and compares. *)
EXTENDS Rules, TLC, Json, IOUtils
Traces == JsonDeserialize(IOEnv.TRACE_FILE)
N == Len(Traces)
VARIABLES tid, verdict
SetOf(s) == {s[j] : j \in 1..Len(s)}
TraceInit == tid \in 1..N /\ verdict = "run"
Expected(t) ==
  CASE t.rule = "MD009" -> Verdict_MD009(t.L, t.cfg)
    [] t.rule = "MD010" -> Verdict_MD010(t.L, t.cfg)
    [] t.rule = "MD012" -> Verdict_MD012(t.L, t.cfg)
    [] t.rule = "MD013" -> Verdict_MD013(t.L, t.cfg)
    [] t.rule = "MD047" -> Verdict_MD047(t.L)
    [] t.rule = "MD001" -> Verdict_MD001(t.B)
    [] t.rule = "MD025" -> Verdict_MD025(t.B, t.cfg)
    [] t.rule = "MD040" -> Verdict_MD040(t.B)
    [] t.rule = "MD048" -> Verdict_MD048(t.B, t.cfg)
    [] t.rule = "MD046" -> Verdict_MD046(t.B, t.cfg)
    [] t.rule = "MD035" -> Verdict_MD035(t.B, t.cfg)
    [] t.rule = "MD019" -> Verdict_MD019(t.B)
    [] t.rule = "MD023" -> Verdict_MD023(t.B)
    [] t.rule = "MD003" -> Verdict_MD003(t.B, t.cfg)
    [] t.rule = "MD024" -> Verdict_MD024(t.B, t.cfg)
    [] t.rule = "MD026" -> Verdict_MD026(t.B, [punctuation |-> SetOf(t.cfg.punctuation)])
    [] t.rule = "MD041" -> Verdict_MD041(t.L, t.B, t.cfg)
    [] t.rule = "MD022" -> Verdict_MD022(t.L, t.B)
    [] t.rule = "MD004" -> Verdict_MD004(t.B, t.cfg)
    [] t.rule = "MD018" -> Verdict_MD018(t.L)
    [] t.rule = "MD031" -> Verdict_MD031(t.L, t.B)
    [] t.rule = "MD032" -> Verdict_MD032(t.L, t.B)
    [] t.rule = "MD042" -> Verdict_MD042(t.I)
    [] t.rule = "MD045" -> Verdict_MD045(t.I)
Judge ==
  /\ verdict = "run"
  /\ LET t == Traces[tid][1]
         exp == Expected(t)
         got == SetOf(t.observed)
         ok == exp.must \subseteq got /\ got \subseteq (exp.must \cup exp.may) IN
       /\ verdict' = IF ok THEN "accept" ELSE "reject"
       /\ PrintT(ToJson([v |-> IF ok THEN "ACCEPT" ELSE "REJECT", tid |-> tid, pos |-> 1,
                         what |-> IF ok THEN "" ELSE IF exp.must \ got # {} THEN "missed" ELSE "spurious",
                         missed |-> exp.must \ got, spurious |-> got \ (exp.must \cup exp.may)]))
  /\ UNCHANGED tid
TraceNext == Judge
=============================================================================
