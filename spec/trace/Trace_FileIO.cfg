CONSTANTS Procs = {"trunc", "rename"}
          MaxPasses = 9
          MaxChunks = 9
INIT TraceInit
NEXT TraceNext
INVARIANT TraceTypeOK
CHECK_DEADLOCK FALSE
