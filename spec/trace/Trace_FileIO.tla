---------------------------- MODULE Trace_FileIO ----------------------------
(* System calls on the target of a fix run (strace -P target), one trace per run, validated against FileIO.
     begin{npasses}            number of write-backs the run is expected to make (levels that change the file)
     open_trunc                openat(target, O_WRONLY|O_CREAT|O_TRUNC)          -> OpenTrunc
     write{last}               write / sendfile / copy_file_range on that descriptor; last = the content is complete -> WriteChunk(last)
     close_w                   close of that descriptor                          -> Close
     rename                    rename(<temp>, target): the temp file's calls are not on the target's path, so this one
                               event stands for CreateTemp ; WriteTemp(TRUE) ; Rename
     other                     calls that do not change the file (stat, lseek, ioctl, reads)  -> stuttering
     crash{part, stages}       the process was killed before its next call; what was then found on disk
     end{part, stages}         the process ended by itself; what was then found on disk
   `proc` is not logged: it is "rename" iff the trace contains a rename event. *)
EXTENDS FileIO, Sequences, TLC, Json, IOUtils
Traces == JsonDeserialize(IOEnv.TRACE_FILE)
N == Len(Traces)
VARIABLES tid, i, verdict
tvars == <<tid, i, verdict>>

ProcOf(t) == IF \E k \in 1..Len(t) : t[k].ev = "rename" THEN "rename" ELSE "trunc"
TraceInit == /\ tid \in 1..N /\ i = 1 /\ verdict = "run"
             /\ InitWith(ProcOf(Traces[tid]), Traces[tid][1].npasses)

RenameComposite == /\ proc = "rename" /\ ~crashed /\ pc = "idle" /\ pass < npasses
                   /\ target' = Full(pass + 1) /\ pass' = pass + 1 /\ UNCHANGED <<proc, npasses, pc, written, crashed>>
(* the file found on disk: its part, and the stages it can belong to (an empty file belongs to any) *)
ObsMatches(e) == e.part = target.part /\ \E k \in 1..Len(e.stages) : e.stages[k] = target.stage
Consume ==
  /\ verdict = "run" /\ i < Len(Traces[tid])
  /\ LET e == Traces[tid][i + 1] IN
       \/ e.ev = "open_trunc" /\ OpenTrunc
       \/ e.ev = "write" /\ WriteChunk(e.last)
       \/ e.ev = "close_w" /\ Close
       \/ e.ev = "rename" /\ RenameComposite
       \/ e.ev = "other" /\ UNCHANGED vars
       \/ e.ev = "crash" /\ Crash /\ ObsMatches(e)
       \/ e.ev = "end" /\ Finish /\ ObsMatches(e)
  /\ i' = i + 1 /\ UNCHANGED <<tid, verdict>>
Reject ==
  /\ verdict = "run" /\ i < Len(Traces[tid]) /\ ~ENABLED Consume
  /\ verdict' = "reject" /\ UNCHANGED <<tid, i>> /\ UNCHANGED vars
  /\ PrintT(ToJson([v |-> "REJECT", tid |-> tid, pos |-> i + 1, what |-> Traces[tid][i + 1].ev,
                    state |-> [target |-> target, pass |-> pass, pc |-> pc, proc |-> proc, npasses |-> npasses]]))
Done ==
  /\ verdict = "run" /\ i = Len(Traces[tid])
  /\ verdict' = "accept" /\ UNCHANGED <<tid, i>> /\ UNCHANGED vars
  /\ PrintT(ToJson([v |-> "ACCEPT", tid |-> tid, pos |-> i, what |-> proc,
                    state |-> [target |-> target, pass |-> pass, pc |-> pc, proc |-> proc, npasses |-> npasses]]))
TraceNext == Consume \/ Reject \/ Done
(* what every state of every real run satisfied; NOT AtomicTarget: for proc = "trunc" that is the known finding *)
TraceTypeOK == TypeOK
=============================================================================
