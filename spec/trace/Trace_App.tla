----------------------------- MODULE Trace_App -----------------------------
(* Batched trace validation: every recorded run (probe events of the real code, framed by
   the harness with the command-line intent `run` and the observed process status `proc_exit`)
   must be a behaviour of App.  One TLC start checks all traces of the file named by the
   environment variable TRACE_FILE; the trace id is part of the state.  Verdicts are total:
     <<"ACCEPT", tid, n>>                       the whole trace is a behaviour of App
     <<"REJECT", tid, pos, event, state...>>    no App action explains event number pos
     <<"INVFAIL", tid, pos, invariant>>         an invariant of App is false after event pos-1 *)
EXTENDS App, TLC, Json, IOUtils

Traces == JsonDeserialize(IOEnv.TRACE_FILE)
N == Len(Traces)
TraceFiles == Nat

VARIABLES tid, i, verdict
tvars == <<vars, tid, i, verdict>>

TraceInit == Init /\ tid \in 1..N /\ i = 0 /\ verdict = "run"

FailedInv ==
  IF ~AnnouncedOnlyIfChanged THEN "AnnouncedOnlyIfChanged"
  ELSE IF ~ScanReadOnly THEN "ScanReadOnly"
  ELSE IF ~ErrorNeverMasked THEN "ErrorNeverMasked"
  ELSE IF ~FixedCodeIffAnnounced THEN "FixedCodeIffAnnounced"
  ELSE IF ~ChangedIffAnnounced THEN "ChangedIffAnnounced"
  ELSE IF ~ExitFollowsTable THEN "ExitFollowsTable"
  ELSE IF ~NoTempAtExit THEN "NoTempAtExit"
  ELSE ""

Consume ==
  /\ verdict = "run" /\ i < Len(Traces[tid]) /\ FailedInv = ""
  /\ LET e == Traces[tid][i + 1] IN
       \/ e.ev = "run" /\ Start(e.mode, e.scheme, e.coe)
       \/ e.ev = "file_begin" /\ FileBegin(e.f)
       \/ e.ev = "failure" /\ Failure(e.suppressed)
       \/ e.ev = "parse_fail" /\ ParseFail
       \/ e.ev = "level_begin" /\ LevelBegin(e.f, e.level)
       \/ e.ev = "tmp_new" /\ TmpNew(e.tmp)
       \/ e.ev = "tmp_del" /\ TmpDel(e.tmp)
       \/ e.ev = "writeback_begin" /\ WritebackBegin(e.f, e.tmp)
       \/ e.ev = "writeback_end" /\ WritebackEnd(e.f)
       \/ e.ev = "pass_end" /\ PassEnd(e.f, e.fixed)
       \/ e.ev = "level_end" /\ LevelEnd(e.f, e.keep, e.next_level)
       \/ e.ev = "scan_error" /\ ScanError(e.f, e.shortcut)
       \/ e.ev = "announce" /\ Announce(e.f)
       \/ e.ev = "file_end" /\ FileEnd(e.f, e.ok, e.fixed)
       \/ e.ev = "exit" /\ Exit(e.category, e.scheme, e.code)
       \/ e.ev = "proc_exit" /\ pc = "exited" /\ e.code = exitCode /\ UNCHANGED vars
       \/ e.ev = "proc_exit" /\ pc # "exited" /\ ArgparseExit(e.code)
       \/ e.ev = "disk" /\ ObservedDisk({e.changed[j] : j \in 1..Len(e.changed)}, e.extra)
  /\ i' = i + 1 /\ UNCHANGED <<tid, verdict>>

InvFail ==
  /\ verdict = "run" /\ FailedInv # ""
  /\ verdict' = "reject"
  /\ UNCHANGED <<vars, tid, i>>
  /\ PrintT(ToJson([v |-> "INVFAIL", tid |-> tid, pos |-> i + 1, what |-> FailedInv]))

Reject ==
  /\ verdict = "run" /\ i < Len(Traces[tid]) /\ FailedInv = ""
  /\ ~ENABLED Consume
  /\ verdict' = "reject"
  /\ UNCHANGED <<vars, tid, i>>
  /\ PrintT(ToJson([v |-> "REJECT", tid |-> tid, pos |-> i + 1, what |-> Traces[tid][i + 1].ev, state |->
              [pc |-> pc, mode |-> mode, cur |-> cur, last |-> last, errCur |-> errCur, perr |-> perr,
               fatal |-> fatal, inPass |-> inPass, wb |-> wb, ntemps |-> Cardinality(temps),
               nfail |-> nfail, failed |-> failed, announced |-> announced, expected |-> ExpectedCategory]]))

Finish ==
  /\ verdict = "run" /\ i = Len(Traces[tid]) /\ FailedInv = ""
  /\ verdict' = IF pc = "exited" THEN "accept" ELSE "reject"
  /\ UNCHANGED <<vars, tid, i>>
  /\ PrintT(ToJson([v |-> IF pc = "exited" THEN "ACCEPT" ELSE "REJECT", tid |-> tid, pos |-> i + 1,
                     what |-> "end-of-trace"]))

TraceNext == Consume \/ InvFail \/ Reject \/ Finish
TraceSpec == TraceInit /\ [][TraceNext]_tvars
=============================================================================
