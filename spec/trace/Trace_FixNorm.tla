----------------------------- MODULE Trace_FixNorm -----------------------------
EXTENDS FixNorm, TLC, Json, IOUtils
Traces == JsonDeserialize(IOEnv.TRACE_FILE)
N == Len(Traces)
VARIABLES tid, verdict
TraceInit == tid \in 1..N /\ verdict = "run"
Judge ==
  /\ verdict = "run"
  /\ LET t == Traces[tid][1]
         bf == Squash(t.before)
         af == Squash(t.after)
         ok == EquivalentRaw(bf, af)
         i == FirstDifference(bf, af) IN
       /\ verdict' = IF ok THEN "accept" ELSE "reject"
       /\ PrintT(ToJson([v |-> IF ok THEN "ACCEPT" ELSE "REJECT", tid |-> tid, pos |-> IF ok THEN 0 ELSE i,
                         what |-> IF ok THEN "equivalent"
                                  ELSE IF i > Len(bf) THEN "block-added" ELSE IF i > Len(af) THEN "block-lost"
                                  ELSE IF bf[i].k # af[i].k THEN "block-kind-changed"
                                  ELSE IF bf[i].t # af[i].t THEN "text-changed"
                                  ELSE IF bf[i].links # af[i].links THEN "link-target-changed" ELSE "attribute-changed",
                         b |-> IF i <= Len(bf) THEN bf[i] ELSE [k |-> "-", t |-> "", lv |-> 0, links |-> <<>>],
                         a |-> IF i <= Len(af) THEN af[i] ELSE [k |-> "-", t |-> "", lv |-> 0, links |-> <<>>]]))
  /\ UNCHANGED tid
TraceNext == Judge
=============================================================================
