INIT TraceInit
NEXT TraceNext
CHECK_DEADLOCK FALSE
INVARIANT WellNested
