------------------------------ MODULE MdBlocks ------------------------------
(* CommonMark block structure ("phase 1" of the specification's parsing strategy) as a
   line-at-a-time state machine, transcribed from the reference algorithm (commonmark.js
   incorporateLine / cmark S_process_line), not from the implementation under test.

   A line is a sequence of 1-character strings.  The state is the stack `st` of OPEN nodes
   from the document root to the tip; each node is
     [t |-> "doc"|"bq"|"list"|"item"|"para"|"heading"|"code"|"hr", d |-> kind specific data,
      kids |-> finished children, txt |-> content lines, llb |-> last-line-blank flag,
      ln |-> line of the opener, col |-> 1-based character column of the opener].
   Step(st, l, lno) consumes one line: continue the open nodes that match (Match), open new
   blocks (Starts: block quote, ATX heading, fence, setext underline, thematic break, list
   item, indented code), handle lazy continuation lines, otherwise close the unmatched
   nodes and add the line to the tip or to a new paragraph.  Finish closes everything and
   computes tight/loose.  Tabs follow the specification: tab stop 4 and partially consumed
   tabs (cursor field pct).

   Modelled: block quotes, bullet and ordered lists (start number, delimiter, tight/loose,
   "may interrupt a paragraph" restrictions), paragraphs with laziness, ATX and setext
   headings, fenced and indented code, thematic breaks, blank lines, tabs.
   HTML blocks: start conditions 1 (script, style, pre), 2, 3, 4 (upper-case name: the form on which 0.29 and 0.31 agree), 5,
   6 (the full list of tag names), 7 (for the tag names of the alphabets).
   Link reference definitions at the start of paragraphs (destination without angle brackets, quoted titles).
   Not modelled (outside every alphabet used with this module): <..> destinations and
   parenthesised titles of definitions; inline structure is in MdInline. *)
EXTENDS Naturals, Sequences, TLC

Peek(l, i) == IF i < Len(l) THEN l[i + 1] ELSE ""      \* 0-based offset
IsSpTab(c) == c = " " \/ c = "\t"
Slice(l, i) == IF i >= Len(l) THEN <<>> ELSE SubSeq(l, i + 1, Len(l))   \* from 0-based offset
Last(s) == s[Len(s)]
Front(s) == SubSeq(s, 1, Len(s) - 1)

Cur0 == [off |-> 0, col |-> 0, pct |-> FALSE]

RECURSIVE AdvCols(_, _, _)
AdvCols(l, c, n) ==
  IF n = 0 \/ c.off >= Len(l) THEN c
  ELSE IF l[c.off + 1] = "\t"
       THEN LET ctt == 4 - (c.col % 4) IN
            IF ctt > n THEN [off |-> c.off, col |-> c.col + n, pct |-> TRUE]
            ELSE AdvCols(l, [off |-> c.off + 1, col |-> c.col + ctt, pct |-> FALSE], n - ctt)
       ELSE AdvCols(l, [off |-> c.off + 1, col |-> c.col + 1, pct |-> FALSE], n - 1)

RECURSIVE AdvChars(_, _, _)
AdvChars(l, c, n) ==
  IF n = 0 \/ c.off >= Len(l) THEN c
  ELSE IF l[c.off + 1] = "\t"
       THEN AdvChars(l, [off |-> c.off + 1, col |-> c.col + (4 - (c.col % 4)), pct |-> FALSE], n - 1)
       ELSE AdvChars(l, [off |-> c.off + 1, col |-> c.col + 1, pct |-> FALSE], n - 1)

RECURSIVE FnnScan(_, _, _)
FnnScan(l, i, cols) ==
  IF i < Len(l) /\ l[i + 1] = " " THEN FnnScan(l, i + 1, cols + 1)
  ELSE IF i < Len(l) /\ l[i + 1] = "\t" THEN FnnScan(l, i + 1, cols + (4 - (cols % 4)))
  ELSE <<i, cols>>

FNN(l, c) == LET r == FnnScan(l, c.off, c.col) IN
  [nns |-> r[1], nnc |-> r[2], indent |-> r[2] - c.col,
   blank |-> r[1] >= Len(l), indented |-> r[2] - c.col >= 4]
AdvNNS(f) == [off |-> f.nns, col |-> f.nnc, pct |-> FALSE]
EolCur(l, c) == AdvChars(l, c, Len(l))

RECURSIVE Run(_, _, _)
Run(l, i, ch) == IF i < Len(l) /\ l[i + 1] = ch THEN 1 + Run(l, i + 1, ch) ELSE 0
RECURSIVE WsRun(_, _)
WsRun(l, i) == IF i < Len(l) /\ IsSpTab(l[i + 1]) THEN 1 + WsRun(l, i + 1) ELSE 0
OnlyWs(l, i) == i + WsRun(l, i) >= Len(l)
OnlySpaces(l, i) == i + Run(l, i, " ") >= Len(l)
Has(l, i, ch) == \E k \in (i + 1)..Len(l) : l[k] = ch
RECURSIVE CountOf(_, _, _)
CountOf(l, i, ch) == IF i >= Len(l) THEN 0 ELSE (IF l[i + 1] = ch THEN 1 ELSE 0) + CountOf(l, i + 1, ch)
IsDigit(c) == c \in {"0", "1", "2", "3", "4", "5", "6", "7", "8", "9"}
RECURSIVE DigitRun(_, _)
DigitRun(l, i) == IF i < Len(l) /\ IsDigit(l[i + 1]) THEN 1 + DigitRun(l, i + 1) ELSE 0

(* ---- nodes ---- *)
NewNode(t, d, ln, col) ==
  [t |-> t, kids |-> <<>>, txt |-> <<>>, d |-> d, llb |-> FALSE, ln |-> ln, col |-> col]
Tip(st) == st[Len(st)]
CanContain(pt, ct) == CASE pt \in {"doc", "bq", "item"} -> ct # "item"
                        [] pt = "list" -> ct = "item"
                        [] OTHER -> FALSE
AcceptsLines(t) == t \in {"para", "code", "html"}

RECURSIVE EndsBlank(_)
EndsBlank(nd) == IF nd.t \in {"list", "item"} /\ nd.kids # <<>> THEN EndsBlank(Last(nd.kids)) ELSE nd.llb

(* paragraphs that consisted only of link reference definitions are gone before tightness is computed (reference algorithm) *)
RealKids(nd) == SelectSeq(nd.kids, LAMBDA k : k.t # "refs")
Tight(items) ==
  LET n == Len(items) IN
  ~ \E i \in 1..n :
        \/ (items[i].llb /\ i < n)
        \/ \E j \in 1..Len(RealKids(items[i])) :
              (i < n \/ j < Len(RealKids(items[i]))) /\ EndsBlank(RealKids(items[i])[j])

(* ---- link reference definitions (spec section 4.7) ---------------------------------------------------------------
   When a paragraph is finished (and before a setext underline turns it into a heading) the definitions at the START of
   its content are taken off: `[label]:`, optional white space including at most one line ending, a destination (a
   non-empty run of non-space characters), optionally -- separated by white space including at most one line ending -- a
   title in single or double quotes, then nothing but white space up to the end of the line.  A title that is not
   followed by the end of the line is not a title; the definition then ends after the destination if that is where the
   line ends.  What is left is the paragraph; nothing left: no paragraph (node type "refs", renders nothing). *)
RECURSIVE Join(_)
Join(txt) == IF txt = <<>> THEN <<>> ELSE IF Len(txt) = 1 THEN txt[1] ELSE txt[1] \o <<"\n">> \o Join(Tail(txt))
IsWsNl(c) == c = " " \/ c = "\t" \/ c = "\n"
RECURSIVE SkipSp(_, _)
SkipSp(s, i) == IF i <= Len(s) /\ IsSpTab(s[i]) THEN SkipSp(s, i + 1) ELSE i
Spnl(s, i) == LET j == SkipSp(s, i) IN IF j <= Len(s) /\ s[j] = "\n" THEN SkipSp(s, j + 1) ELSE j
AtEol(s, i) == i > Len(s) \/ s[i] = "\n"
RECURSIVE LabelEnd(_, _)
LabelEnd(s, i) == IF i > Len(s) \/ s[i] = "[" THEN 0 ELSE IF s[i] = "]" THEN i ELSE LabelEnd(s, i + 1)
RECURSIVE DestStop(_, _)
DestStop(s, i) == IF i <= Len(s) /\ ~IsWsNl(s[i]) THEN DestStop(s, i + 1) ELSE i
RECURSIVE QuoteClose(_, _, _)
QuoteClose(s, i, q) == IF i > Len(s) THEN 0 ELSE IF s[i] = q THEN i ELSE QuoteClose(s, i + 1, q)
NoDef == [ok |-> FALSE, next |-> 0, label |-> <<>>, dest |-> <<>>, title |-> <<>>]
ParseDef(s, i) ==
  IF i > Len(s) \/ s[i] # "[" THEN NoDef
  ELSE LET le == LabelEnd(s, i + 1) IN
    IF le = 0 \/ ~(\E k \in (i + 1)..(le - 1) : ~IsWsNl(s[k])) \/ le + 1 > Len(s) \/ s[le + 1] # ":" THEN NoDef
    ELSE LET k == Spnl(s, le + 2)
             de == DestStop(s, k) IN
      IF de = k THEN NoDef
      ELSE LET ts == Spnl(s, de)
               hasT == ts > de /\ ts <= Len(s) /\ s[ts] \in {"'", "\""}
               tc == IF hasT THEN QuoteClose(s, ts + 1, s[ts]) ELSE 0
               afterT == IF tc # 0 THEN SkipSp(s, tc + 1) ELSE 0
               afterD == SkipSp(s, de)
               base == [ok |-> TRUE, next |-> 0, label |-> SubSeq(s, i + 1, le - 1), dest |-> SubSeq(s, k, de - 1), title |-> <<>>]
           IN IF tc # 0 /\ AtEol(s, afterT) THEN [base EXCEPT !.next = afterT + 1, !.title = SubSeq(s, ts + 1, tc - 1)]
              ELSE IF AtEol(s, afterD) THEN [base EXCEPT !.next = afterD + 1]
              ELSE NoDef
RECURSIVE DefsFrom(_, _)
DefsFrom(s, i) == LET r == ParseDef(s, i) IN
                  IF r.ok THEN <<[label |-> r.label, dest |-> r.dest, title |-> r.title]>> \o DefsFrom(s, r.next) ELSE <<>>
RECURSIVE RestStart(_, _)
RestStart(s, i) == LET r == ParseDef(s, i) IN IF r.ok THEN RestStart(s, r.next) ELSE i
RECURSIVE CountNl(_, _)
CountNl(s, n) == IF n = 0 THEN 0 ELSE (IF s[n] = "\n" THEN 1 ELSE 0) + CountNl(s, n - 1)
RefDefs(txt) == DefsFrom(Join(txt), 1)
RefRest(txt) == LET s == Join(txt)
                    r == RestStart(s, 1) IN
                IF r > Len(s) THEN <<>> ELSE SubSeq(txt, CountNl(s, r - 1) + 1, Len(txt))

RECURSIVE StripTrailBlank(_)
StripTrailBlank(txt) == IF txt # <<>> /\ OnlySpaces(Last(txt), 0) THEN StripTrailBlank(Front(txt)) ELSE txt

Fin(nd) ==
  CASE nd.t = "list" -> [nd EXCEPT !.d = [@ EXCEPT !.tight = Tight(nd.kids)]]
    [] nd.t = "para" /\ RefDefs(nd.txt) # <<>> ->
         [nd EXCEPT !.t = IF RefRest(nd.txt) = <<>> THEN "refs" ELSE "para", !.d = [defs |-> RefDefs(nd.txt)],
                    !.ln = nd.ln + (Len(nd.txt) - Len(RefRest(nd.txt))), !.txt = RefRest(nd.txt)]
    [] nd.t = "code" /\ ~nd.d.fenced -> [nd EXCEPT !.txt = StripTrailBlank(@)]
    [] OTHER -> nd

PopClose(st) ==
  LET n == Len(st)
      nd == Fin(st[n])
  IN SubSeq(st, 1, n - 2) \o << [st[n - 1] EXCEPT !.kids = Append(@, nd)] >>
RECURSIVE CloseTo(_, _)
CloseTo(st, m) == IF Len(st) <= m THEN st ELSE CloseTo(PopClose(st), m)
RECURSIVE AddChild(_, _)
AddChild(st, nd) == IF CanContain(Tip(st).t, nd.t) THEN Append(st, nd) ELSE AddChild(PopClose(st), nd)

Spaces(n) == [i \in 1..n |-> " "]
AddLine(st, l, c) ==
  LET s == IF c.pct THEN Spaces(4 - (c.col % 4)) \o Slice(l, c.off + 1) ELSE Slice(l, c.off)
  IN [st EXCEPT ![Len(st)].txt = Append(@, s)]

(* ---- continuation of open blocks ---- *)
IsClosingFence(nd, l, f) ==
  /\ f.indent <= 3
  /\ Peek(l, f.nns) = nd.d.fch
  /\ Run(l, f.nns, nd.d.fch) >= nd.d.flen
  /\ OnlySpaces(l, f.nns + Run(l, f.nns, nd.d.fch))

RECURSIVE SkipFenceOff(_, _, _)
SkipFenceOff(l, c, i) == IF i > 0 /\ IsSpTab(Peek(l, c.off)) THEN SkipFenceOff(l, AdvCols(l, c, 1), i - 1) ELSE c

BqEat(l, f) == LET c1 == AdvChars(l, AdvNNS(f), 1) IN IF IsSpTab(Peek(l, c1.off)) THEN AdvCols(l, c1, 1) ELSE c1

Continue(nd, hasOpenKid, l, c) ==
  LET f == FNN(l, c)
      ok(c2) == [res |-> 0, cur |-> c2]
      no == [res |-> 1, cur |-> c]
  IN CASE nd.t = "bq" -> IF ~f.indented /\ Peek(l, f.nns) = ">" THEN ok(BqEat(l, f)) ELSE no
       [] nd.t = "item" ->
            IF f.blank THEN (IF nd.kids = <<>> /\ ~hasOpenKid THEN no ELSE ok(AdvNNS(f)))
            ELSE IF f.indent >= nd.d.mo + nd.d.pad THEN ok(AdvCols(l, c, nd.d.mo + nd.d.pad)) ELSE no
       [] nd.t = "list" -> ok(c)
       [] nd.t = "para" -> IF f.blank THEN no ELSE ok(c)
       [] nd.t = "code" ->
            IF nd.d.fenced
            THEN IF IsClosingFence(nd, l, f) THEN [res |-> 2, cur |-> c] ELSE ok(SkipFenceOff(l, c, nd.d.foff))
            ELSE IF f.indent >= 4 THEN ok(AdvCols(l, c, 4)) ELSE IF f.blank THEN ok(AdvNNS(f)) ELSE no
       [] nd.t = "html" ->
            \* kinds 6 and 7 end at a blank line (which is not part of the block); kinds 1-5 take every line until one
            \* satisfies the end condition (closed after that line has been added, see Step)
            IF nd.d.hkind \in {6, 7} /\ f.blank THEN no ELSE ok(c)
       [] OTHER -> no          \* heading, hr never continue

RECURSIVE Match(_, _, _, _)
Match(st, l, c, i) ==
  IF i > Len(st) THEN [m |-> Len(st), cur |-> c, done |-> FALSE, st |-> st]
  ELSE LET r == Continue(st[i], i < Len(st), l, c) IN
       CASE r.res = 0 -> Match(st, l, r.cur, i + 1)
         [] r.res = 1 -> [m |-> i - 1, cur |-> c, done |-> FALSE, st |-> st]
         [] OTHER -> [m |-> i - 1, cur |-> c, done |-> TRUE, st |-> PopClose(st)]

(* ---- block starts ---- *)
AtxHashes(l, f) == Run(l, f.nns, "#")
IsAtx(l, f) == LET h == AtxHashes(l, f) IN
  ~f.indented /\ h >= 1 /\ h <= 6 /\ (f.nns + h >= Len(l) \/ IsSpTab(Peek(l, f.nns + h)))

RECURSIVE RStripWs(_)
RStripWs(s) == IF s # <<>> /\ IsSpTab(Last(s)) THEN RStripWs(Front(s)) ELSE s
RECURSIVE RStripCh(_, _)
RStripCh(s, ch) == IF s # <<>> /\ Last(s) = ch THEN RStripCh(Front(s), ch) ELSE s
AtxContent(s) ==
  LET a == RStripWs(s)
      b == RStripCh(a, "#")
  IN IF a = b THEN s                                 \* no trailing hashes
     ELSE IF b = <<>> \/ OnlyWs(b, 0) THEN <<>>      \* only (ws) hashes (ws)
     ELSE IF IsSpTab(Last(b)) THEN RStripWs(b)       \* ws before closing hashes
     ELSE s

IsFence(l, f) ==
  LET bt == Run(l, f.nns, "`")
      tl == Run(l, f.nns, "~")
  IN ~f.indented /\ ((bt >= 3 /\ ~Has(l, f.nns + bt, "`")) \/ tl >= 3)
FenceCh(l, f) == Peek(l, f.nns)
FenceLen(l, f) == Run(l, f.nns, FenceCh(l, f))

(* HTML blocks (spec section 4.6), start conditions 2 (comment), 6 (block-level tag name) and 7 (any complete tag alone on
   its line; cannot interrupt a paragraph).  Tag names of the alphabets: div, p, table (kind 6); a, b, span (kind 7). *)
StartsWithAt(l, i, w) == i + Len(w) <= Len(l) /\ SubSeq(l, i + 1, i + Len(w)) = w
RECURSIVE HasSeqFrom(_, _, _)
HasSeqFrom(l, i, w) == IF i + Len(w) > Len(l) THEN FALSE ELSE StartsWithAt(l, i, w) \/ HasSeqFrom(l, i + 1, w)
(* start condition 6: the tag names on which CommonMark 0.29 and 0.31 agree (`source` and `search` are left out) *)
BlockTags == {<<"a", "d", "d", "r", "e", "s", "s">>, <<"a", "r", "t", "i", "c", "l", "e">>, <<"a", "s", "i", "d", "e">>, <<"b", "a", "s", "e">>, <<"b", "a", "s", "e", "f", "o", "n", "t">>, <<"b", "l", "o", "c", "k", "q", "u", "o", "t", "e">>,
              <<"b", "o", "d", "y">>, <<"c", "a", "p", "t", "i", "o", "n">>, <<"c", "e", "n", "t", "e", "r">>, <<"c", "o", "l">>, <<"c", "o", "l", "g", "r", "o", "u", "p">>, <<"d", "d">>,
              <<"d", "e", "t", "a", "i", "l", "s">>, <<"d", "i", "a", "l", "o", "g">>, <<"d", "i", "r">>, <<"d", "i", "v">>, <<"d", "l">>, <<"d", "t">>,
              <<"f", "i", "e", "l", "d", "s", "e", "t">>, <<"f", "i", "g", "c", "a", "p", "t", "i", "o", "n">>, <<"f", "i", "g", "u", "r", "e">>, <<"f", "o", "o", "t", "e", "r">>, <<"f", "o", "r", "m">>, <<"f", "r", "a", "m", "e">>,
              <<"f", "r", "a", "m", "e", "s", "e", "t">>, <<"h", "1">>, <<"h", "2">>, <<"h", "3">>, <<"h", "4">>, <<"h", "5">>,
              <<"h", "6">>, <<"h", "e", "a", "d">>, <<"h", "e", "a", "d", "e", "r">>, <<"h", "r">>, <<"h", "t", "m", "l">>, <<"i", "f", "r", "a", "m", "e">>,
              <<"l", "e", "g", "e", "n", "d">>, <<"l", "i">>, <<"l", "i", "n", "k">>, <<"m", "a", "i", "n">>, <<"m", "e", "n", "u">>, <<"m", "e", "n", "u", "i", "t", "e", "m">>,
              <<"n", "a", "v">>, <<"n", "o", "f", "r", "a", "m", "e", "s">>, <<"o", "l">>, <<"o", "p", "t", "g", "r", "o", "u", "p">>, <<"o", "p", "t", "i", "o", "n">>, <<"p">>,
              <<"p", "a", "r", "a", "m">>, <<"s", "e", "c", "t", "i", "o", "n">>, <<"s", "u", "m", "m", "a", "r", "y">>, <<"t", "a", "b", "l", "e">>, <<"t", "b", "o", "d", "y">>, <<"t", "d">>,
              <<"t", "f", "o", "o", "t">>, <<"t", "h">>, <<"t", "h", "e", "a", "d">>, <<"t", "i", "t", "l", "e">>, <<"t", "r">>, <<"t", "r", "a", "c", "k">>,
              <<"u", "l">>}
OtherTags == {<<"a">>, <<"b">>, <<"s", "p", "a", "n">>, <<"s", "c", "r", "i", "p", "t">>, <<"s", "t", "y", "l", "e">>, <<"S", "T", "Y", "L", "E">>}
(* start condition 1: `<script`, `<pre`, `<style` (any case; the alphabets use all-lower and all-upper spellings) followed by white space,
   `>` or the end of the line; the block ends with the line that holds one of the closing tags.  `textarea` (added by 0.30) is left out. *)
Kind1Tags == {<<"s", "c", "r", "i", "p", "t">>, <<"s", "t", "y", "l", "e">>, <<"p", "r", "e">>, <<"S", "T", "Y", "L", "E">>}
Kind1Closers == {<<"<", "/", "s", "c", "r", "i", "p", "t", ">">>, <<"<", "/", "s", "t", "y", "l", "e", ">">>, <<"<", "/", "p", "r", "e", ">">>, <<"<", "/", "S", "T", "Y", "L", "E", ">">>}
UpperLetters == {"A", "B", "C", "D", "X", "Y"}
(* the line, from offset off on, satisfies the end condition of an HTML block of kind k (kinds 6 and 7 end before a blank line instead) *)
HtmlEnds(k, l, off) ==
  CASE k = 1 -> \E w \in Kind1Closers : HasSeqFrom(l, off, w)
    [] k = 2 -> HasSeqFrom(l, off, <<"-", "-", ">">>)
    [] k = 3 -> HasSeqFrom(l, off, <<"?", ">">>)
    [] k = 4 -> HasSeqFrom(l, off, <<">">>)
    [] k = 5 -> HasSeqFrom(l, off, <<"]", "]", ">">>)
    [] OTHER -> FALSE
TagAt(l, i, tags) == \E w \in tags : StartsWithAt(l, i, w)
TagLen(l, i, tags) == Len(CHOOSE w \in tags : StartsWithAt(l, i, w) /\ \A v \in tags : StartsWithAt(l, i, v) => Len(v) <= Len(w))
HtmlKind(l, f) ==        \* 0: not an HTML block start
  LET i == f.nns
      j == IF StartsWithAt(l, i, <<"<", "/">>) THEN i + 2 ELSE i + 1 IN
  IF f.indented \/ Peek(l, i) # "<" THEN 0
  ELSE IF TagAt(l, i + 1, Kind1Tags) /\ Peek(l, i + 1 + TagLen(l, i + 1, Kind1Tags)) \in {"", " ", "\t", ">"} THEN 1
  ELSE IF StartsWithAt(l, i, <<"<", "!", "-", "-">>) THEN 2
  ELSE IF StartsWithAt(l, i, <<"<", "?">>) THEN 3
  ELSE IF StartsWithAt(l, i, <<"<", "!">>) /\ Peek(l, i + 2) \in UpperLetters THEN 4
  ELSE IF StartsWithAt(l, i, <<"<", "!", "[", "C", "D", "A", "T", "A", "[">>) THEN 5
  ELSE IF TagAt(l, j, BlockTags) /\ Peek(l, j + TagLen(l, j, BlockTags)) \in {"", " ", "\t", ">", "/"} THEN 6
  ELSE IF TagAt(l, j, OtherTags) /\ Peek(l, j + TagLen(l, j, OtherTags)) = ">" /\ OnlyWs(l, j + TagLen(l, j, OtherTags) + 1) THEN 7
  ELSE 0

IsThematic(l, f) ==
  LET ch == Peek(l, f.nns) IN
  /\ ~f.indented
  /\ ch \in {"*", "_", "-"}
  /\ \A k \in (f.nns + 1)..Len(l) : l[k] = ch \/ IsSpTab(l[k])
  /\ CountOf(l, f.nns, ch) >= 3

IsSetextLine(l, f) ==
  LET ch == Peek(l, f.nns) IN
  ~f.indented /\ ch \in {"=", "-"} /\ OnlyWs(l, f.nns + Run(l, f.nns, ch))

(* list marker: returns [ok, ord, bullet, delim, start(digits), mlen] *)
Marker(l, f, contIsPara) ==
  LET ch == Peek(l, f.nns)
      dr == DigitRun(l, f.nns)
      isB == ch \in {"*", "+", "-"}
      isO == dr >= 1 /\ dr <= 9 /\ Peek(l, f.nns + dr) \in {".", ")"}
             /\ (~contIsPara \/ SubSeq(l, f.nns + 1, f.nns + dr) = <<"1">>)
      mlen == IF isB THEN 1 ELSE dr + 1
      nextc == Peek(l, f.nns + mlen)
  IN IF f.indent >= 4 \/ ~(isB \/ isO) THEN [ok |-> FALSE]
     ELSE IF ~(nextc = "" \/ IsSpTab(nextc)) THEN [ok |-> FALSE]
     ELSE IF contIsPara /\ OnlyWs(l, f.nns + mlen) THEN [ok |-> FALSE]
     ELSE [ok |-> TRUE, ord |-> ~isB, bullet |-> IF isB THEN ch ELSE "",
           delim |-> IF isB THEN "" ELSE Peek(l, f.nns + dr),
           start |-> IF isB THEN <<>> ELSE SubSeq(l, f.nns + 1, f.nns + dr), mlen |-> mlen]

RECURSIVE EatMarkerSpaces(_, _, _)
EatMarkerSpaces(l, c, startCol) ==       \* the do-while of parseListMarker
  LET c1 == AdvCols(l, c, 1) IN
  IF c1.col - startCol < 5 /\ IsSpTab(Peek(l, c1.off)) /\ ~(c1 = c) THEN EatMarkerSpaces(l, c1, startCol) ELSE c1

ListData(l, f, c, mk) ==
  LET cm == AdvCols(l, AdvNNS(f), mk.mlen)         \* end of marker
      ce == EatMarkerSpaces(l, cm, cm.col)
      blankItem == Peek(l, ce.off) = ""
      sam == ce.col - cm.col
      reset == sam >= 5 \/ sam < 1 \/ blankItem
      pad == IF reset THEN mk.mlen + 1 ELSE mk.mlen + sam
      cf == IF reset THEN (IF IsSpTab(Peek(l, cm.off)) THEN AdvCols(l, cm, 1) ELSE cm) ELSE ce
  IN [cur |-> cf, d |-> [ord |-> mk.ord, bullet |-> mk.bullet, delim |-> mk.delim, start |-> mk.start,
                          pad |-> pad, mo |-> f.indent, tight |-> TRUE]]
ListsMatch(a, b) == a.ord = b.ord /\ a.delim = b.delim /\ a.bullet = b.bullet

RECURSIVE Starts(_, _, _)
Starts(P, l, lno) ==
  IF P.leaf THEN P
  ELSE
  LET f == FNN(l, P.cur)
      cont == P.st[P.m]
      closed == CloseTo(P.st, P.m)
      col == f.nns + 1
      mk == Marker(l, f, cont.t = "para")
  IN
  IF ~f.indented /\ Peek(l, f.nns) = ">" THEN
       LET st2 == AddChild(closed, NewNode("bq", <<>>, lno, col)) IN
       Starts([P EXCEPT !.st = st2, !.m = Len(st2), !.closed = TRUE, !.cur = BqEat(l, f)], l, lno)
  ELSE IF IsAtx(l, f) THEN
       LET h == AtxHashes(l, f)
           c1 == AdvChars(l, AdvNNS(f), h + WsRun(l, f.nns + h))
           nd == [NewNode("heading", [level |-> h, setext |-> FALSE], lno, col) EXCEPT !.txt = <<AtxContent(Slice(l, c1.off))>>]
           st2 == AddChild(closed, nd)
       IN [P EXCEPT !.st = st2, !.m = Len(st2), !.closed = TRUE, !.cur = EolCur(l, c1), !.leaf = TRUE, !.noline = TRUE]
  ELSE IF IsFence(l, f) THEN
       LET nd == NewNode("code", [fenced |-> TRUE, fch |-> FenceCh(l, f), flen |-> FenceLen(l, f), foff |-> f.indent], lno, col)
           st2 == AddChild(closed, nd)
       IN [P EXCEPT !.st = st2, !.m = Len(st2), !.closed = TRUE, !.cur = AdvChars(l, AdvNNS(f), FenceLen(l, f)), !.leaf = TRUE]
  ELSE IF HtmlKind(l, f) # 0 /\ ~(HtmlKind(l, f) = 7 /\ (cont.t = "para" \/ Tip(P.st).t = "para")) THEN
       LET st2 == AddChild(closed, NewNode("html", [hkind |-> HtmlKind(l, f)], lno, col)) IN
       [P EXCEPT !.st = st2, !.m = Len(st2), !.closed = TRUE, !.leaf = TRUE]          \* the whole rest of the line is content
  ELSE IF cont.t = "para" /\ IsSetextLine(l, f) /\ RefRest(cont.txt) # <<>> THEN
       LET hd == [cont EXCEPT !.t = "heading", !.d = [level |-> IF Peek(l, f.nns) = "=" THEN 1 ELSE 2, setext |-> TRUE, defs |-> RefDefs(cont.txt)],
                              !.ln = cont.ln + (Len(cont.txt) - Len(RefRest(cont.txt))), !.txt = RefRest(cont.txt)]
           st2 == [closed EXCEPT ![P.m] = hd]
       IN [P EXCEPT !.st = st2, !.closed = TRUE, !.cur = EolCur(l, P.cur), !.leaf = TRUE, !.noline = TRUE]
  ELSE IF IsThematic(l, f) THEN
       LET st2 == AddChild(closed, NewNode("hr", <<>>, lno, col)) IN
       [P EXCEPT !.st = st2, !.m = Len(st2), !.closed = TRUE, !.cur = EolCur(l, P.cur), !.leaf = TRUE, !.noline = TRUE]
  ELSE IF (~f.indented \/ cont.t = "list") /\ mk.ok THEN
       LET ld == ListData(l, f, P.cur, mk)
           st2 == IF Tip(closed).t # "list" \/ ~ListsMatch(cont.d, ld.d)
                  THEN AddChild(closed, NewNode("list", ld.d, lno, col)) ELSE closed
           st3 == AddChild(st2, NewNode("item", ld.d, lno, col))
       IN Starts([P EXCEPT !.st = st3, !.m = Len(st3), !.closed = TRUE, !.cur = ld.cur], l, lno)
  ELSE IF f.indented /\ Tip(P.st).t # "para" /\ ~f.blank THEN
       LET st2 == AddChild(closed, NewNode("code", [fenced |-> FALSE, fch |-> "", flen |-> 0, foff |-> 0], lno, col)) IN
       [P EXCEPT !.st = st2, !.m = Len(st2), !.closed = TRUE, !.cur = AdvCols(l, P.cur, 4), !.leaf = TRUE]
  ELSE [P EXCEPT !.cur = AdvNNS(f)]

(* cmark's last_line_blank bookkeeping; nodes above m are still open here *)
SetFlags(st, m, blank, lno) ==
  LET c == st[m]
      openKid == m < Len(st)
      llbC == /\ blank
              /\ c.t \notin {"bq", "heading", "hr"}
              /\ ~(c.t = "code" /\ c.d.fenced)
              /\ ~(c.t = "item" /\ c.kids = <<>> /\ ~openKid /\ c.ln = lno)
      st1 == [i \in 1..Len(st) |->
                IF i < m THEN [st[i] EXCEPT !.llb = FALSE]
                ELSE IF i = m THEN [st[i] EXCEPT !.llb = llbC] ELSE st[i]]
  IN IF ~blank THEN st1
     ELSE IF openKid THEN [st1 EXCEPT ![m + 1].llb = TRUE]
     ELSE IF c.kids # <<>> THEN [st1 EXCEPT ![m].kids[Len(c.kids)].llb = TRUE]
     ELSE st1

Step(st0, l, lno) ==
  LET M == Match(st0, l, Cur0, 2) IN
  IF M.done THEN M.st
  ELSE
  LET P0 == [st |-> st0, m |-> M.m, closed |-> (M.m = Len(st0)), cur |-> M.cur,
             leaf |-> (st0[M.m].t # "para" /\ AcceptsLines(st0[M.m].t)), noline |-> FALSE]
      P == Starts(P0, l, lno)
      f == FNN(l, P.cur)
      stF == SetFlags(P.st, P.m, f.blank, lno)
  IN IF ~P.closed /\ ~f.blank /\ Tip(P.st).t = "para"
     THEN AddLine(stF, l, P.cur)                       \* lazy continuation
     ELSE LET st2 == CloseTo(stF, P.m)
              c == st2[P.m]
          IN IF c.t = "html" /\ HtmlEnds(c.d.hkind, l, P.cur.off) THEN PopClose(AddLine(st2, l, P.cur))
             ELSE IF AcceptsLines(c.t) THEN AddLine(st2, l, P.cur)
             ELSE IF P.cur.off < Len(l) /\ ~f.blank /\ ~P.noline
                  THEN AddLine(AddChild(st2, NewNode("para", <<>>, lno, f.nns + 1)), l, AdvNNS(f))
                  ELSE st2

DocNode == NewNode("doc", <<>>, 0, 0)
Finish(st) == Fin(CloseTo(st, 1)[1])
=============================================================================
