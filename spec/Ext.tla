--------------------------------- MODULE Ext ---------------------------------
(* Parser extensions (property C20).  E = {front-matter, strikethrough, task list items, extended
   autolinks, disallowed raw HTML, pragmas}.  For a document d let Trig(d) be the set of extensions whose
   trigger syntax occurs in d.  The parse of d with the set S of extensions enabled depends on S only
   through S \cap Trig(d):

       Parse(S, d) = Parse(S \cap Trig(d), d)                                  (Inert)

   in particular Parse(S, d) = Parse({}, d) -- plain CommonMark -- whenever d contains no syntax of an
   enabled extension, and with every extension off (S = {}) documents full of extension syntax are plain
   CommonMark.  Front matter: if d = block ++ rest with a valid front-matter block of n lines, then

       Parse({fm} \cup S, d) = <<fm-token>> \o ShiftLines(Parse(S, rest), n)     (FrontMatterShift)

   and an invalid or unclosed block changes nothing: Parse({fm} \cup S, d) = Parse(S, d).

   The module states the relation over an abstract parse function; the trace specification (Trace_Obs with
   keys "<S \cap Trig(d)>") checks real observations against it: all observations of one document whose
   effective sets S \cap Trig(d) agree must be equal. *)
EXTENDS FiniteSets

CONSTANTS Exts, Docs, Trig(_), Parse(_, _)

Effective(S, d) == S \cap Trig(d)
Inert == \A d \in Docs : \A S \in SUBSET Exts : Parse(S, d) = Parse(Effective(S, d), d)
(* consequence used by the checks: equal effective sets, equal parses *)
SameEffectiveSameParse ==
  \A d \in Docs : \A S1, S2 \in SUBSET Exts : Effective(S1, d) = Effective(S2, d) => Parse(S1, d) = Parse(S2, d)
=============================================================================
