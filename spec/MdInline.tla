------------------------------ MODULE MdInline ------------------------------
(* CommonMark emphasis and strong emphasis (spec section 6.2 and the "process emphasis" procedure of the
   appendix), for one line of text over an alphabet of letters, spaces and the delimiter characters `*` and `_`.
   Transcribed from the specification text, not from the implementation under test.

   The line is cut into text runs and delimiter runs.  A delimiter run is left-flanking / right-flanking
   according to the characters before and after it (beginning and end of line count as whitespace; in this
   alphabet the only punctuation characters are the delimiters themselves), which decides whether it can open
   and/or close emphasis (`_` has the stricter intra-word rules).  Closers are processed left to right; each
   looks back for the nearest opener of the same character that is not excluded by the "multiple of 3" rule;
   a match wraps the content in <em> (one delimiter from each side) or <strong> (two), deactivates the delimiter
   runs in between and shortens both runs; unmatched delimiters stay literal text.

   Render(Emph(line)) is the sequence of HTML pieces of the paragraph content. *)
EXTENDS Naturals, Sequences

IsDelim(c) == c = "*" \/ c = "_"
IsWs(c) == c = "" \/ c = " "
IsPunct(c) == IsDelim(c)

RECURSIVE RunEnd(_, _, _)
RunEnd(l, i, ch) == IF i < Len(l) /\ l[i + 1] = ch THEN RunEnd(l, i + 1, ch) ELSE i     \* last index of the run starting at i
RECURSIVE TextEnd(_, _)
TextEnd(l, i) == IF i < Len(l) /\ ~IsDelim(l[i + 1]) THEN TextEnd(l, i + 1) ELSE i

DelimNode(l, i, j) ==
  LET ch == l[i]
      prev == IF i = 1 THEN "" ELSE l[i - 1]
      next == IF j = Len(l) THEN "" ELSE l[j + 1]
      lf == ~IsWs(next) /\ (~IsPunct(next) \/ IsWs(prev) \/ IsPunct(prev))
      rf == ~IsWs(prev) /\ (~IsPunct(prev) \/ IsWs(next) \/ IsPunct(next))
      co == IF ch = "*" THEN lf ELSE lf /\ (~rf \/ IsPunct(prev))
      cc == IF ch = "*" THEN rf ELSE rf /\ (~lf \/ IsPunct(next))
  IN [t |-> "delim", ch |-> ch, n |-> j - i + 1, orig |-> j - i + 1, co |-> co, cc |-> cc, s |-> <<>>, tag |-> ""]

RECURSIVE Tokenize(_, _)
Tokenize(l, i) ==
  IF i > Len(l) THEN <<>>
  ELSE IF IsDelim(l[i]) THEN LET j == RunEnd(l, i, l[i]) IN <<DelimNode(l, i, j)>> \o Tokenize(l, j + 1)
  ELSE LET j == TextEnd(l, i) IN
       <<[t |-> "text", ch |-> "", n |-> 0, orig |-> 0, co |-> FALSE, cc |-> FALSE, s |-> SubSeq(l, i, j), tag |-> ""]>> \o Tokenize(l, j + 1)

TagNode(kind, tag) == [t |-> kind, ch |-> "", n |-> 0, orig |-> 0, co |-> FALSE, cc |-> FALSE, s |-> <<>>, tag |-> tag]

(* "multiple of 3": if one of the two runs can both open and close, the sum of their original lengths must not be a
   multiple of 3 unless both lengths are *)
Blocked(o, c) == (o.cc \/ c.co) /\ ((o.orig + c.orig) % 3 = 0) /\ ~(o.orig % 3 = 0 /\ c.orig % 3 = 0)
Opens(o, c) == o.t = "delim" /\ o.ch = c.ch /\ o.co /\ o.n > 0 /\ ~Blocked(o, c)

RECURSIVE FindOpener(_, _, _)
FindOpener(nodes, k, c) == IF k = 0 THEN 0 ELSE IF Opens(nodes[k], c) THEN k ELSE FindOpener(nodes, k - 1, c)

Dead(nd) == IF nd.t = "delim" THEN [nd EXCEPT !.co = FALSE, !.cc = FALSE] ELSE nd

RECURSIVE Process(_, _)
Process(nodes, ci) ==
  IF ci > Len(nodes) THEN nodes
  ELSE LET c == nodes[ci] IN
    IF c.t = "delim" /\ c.cc /\ c.n > 0 THEN
      LET oi == FindOpener(nodes, ci - 1, c) IN
      IF oi = 0 THEN Process(nodes, ci + 1)
      ELSE
        LET o == nodes[oi]
            use == IF o.n >= 2 /\ c.n >= 2 THEN 2 ELSE 1
            tag == IF use = 2 THEN "strong" ELSE "em"
            o2 == [o EXCEPT !.n = o.n - use]
            c2 == [c EXCEPT !.n = c.n - use]
            mid == [k \in 1..(ci - oi - 1) |-> Dead(nodes[oi + k])]
            nodes2 == SubSeq(nodes, 1, oi - 1) \o <<o2, TagNode("open", tag)>> \o mid \o <<TagNode("close", tag), c2>>
                      \o SubSeq(nodes, ci + 1, Len(nodes))
        IN IF c2.n > 0 THEN Process(nodes2, ci + 2) ELSE Process(nodes2, ci + 3)
    ELSE Process(nodes, ci + 1)

Emph(l) == Process(Tokenize(l, 1), 1)
Repeat(ch, n) == [k \in 1..n |-> ch]

(* ---- code spans and backslash escapes (spec sections 6.1, 6.3); they bind tighter than emphasis ------------------- *)
IsPunct2(c) == c \in {"*", "_", "`", "\\"}
TextNode(s) == [t |-> "text", ch |-> "", n |-> 0, orig |-> 0, co |-> FALSE, cc |-> FALSE, s |-> s, tag |-> ""]
DelimNode2(l, i, j) ==
  LET ch == l[i]
      prev == IF i = 1 THEN "" ELSE l[i - 1]
      next == IF j = Len(l) THEN "" ELSE l[j + 1]
      lf == ~IsWs(next) /\ (~IsPunct2(next) \/ IsWs(prev) \/ IsPunct2(prev))
      rf == ~IsWs(prev) /\ (~IsPunct2(prev) \/ IsWs(next) \/ IsPunct2(next))
      co == IF ch = "*" THEN lf ELSE lf /\ (~rf \/ IsPunct2(prev))
      cc == IF ch = "*" THEN rf ELSE rf /\ (~lf \/ IsPunct2(next))
  IN [t |-> "delim", ch |-> ch, n |-> j - i + 1, orig |-> j - i + 1, co |-> co, cc |-> cc, s |-> <<>>, tag |-> ""]

(* start index of the next backtick run of exactly n backticks at or after position i, or 0 *)
RECURSIVE FindCloser(_, _, _)
FindCloser(l, i, n) ==
  IF i > Len(l) THEN 0
  ELSE IF l[i] = "`" THEN LET j == RunEnd(l, i, "`") IN IF j - i + 1 = n THEN i ELSE FindCloser(l, j + 1, n)
  ELSE FindCloser(l, i + 1, n)
AllSpaces(s) == \A k \in 1..Len(s) : s[k] = " "
CodeContent(s) == IF Len(s) >= 2 /\ s[1] = " " /\ s[Len(s)] = " " /\ ~AllSpaces(s) THEN SubSeq(s, 2, Len(s) - 1) ELSE s
RECURSIVE PlainEnd(_, _)
PlainEnd(l, i) == IF i < Len(l) /\ ~IsPunct2(l[i + 1]) THEN PlainEnd(l, i + 1) ELSE i

RECURSIVE Scan2(_, _)
Scan2(l, i) ==
  IF i > Len(l) THEN <<>>
  ELSE IF l[i] = "\\" THEN
         IF i < Len(l) /\ IsPunct2(l[i + 1]) THEN <<TextNode(<<l[i + 1]>>)>> \o Scan2(l, i + 2)       \* escaped punctuation: literal
         ELSE <<TextNode(<<"\\">>)>> \o Scan2(l, i + 1)
  ELSE IF l[i] = "`" THEN
         LET j == RunEnd(l, i, "`")
             n == j - i + 1
             c == FindCloser(l, j + 1, n) IN
         IF c = 0 THEN <<TextNode(Repeat("`", n))>> \o Scan2(l, j + 1)
         ELSE <<[TextNode(CodeContent(SubSeq(l, j + 1, c - 1))) EXCEPT !.t = "code"]>> \o Scan2(l, c + n)
  ELSE IF IsDelim(l[i]) THEN LET j == RunEnd(l, i, l[i]) IN <<DelimNode2(l, i, j)>> \o Scan2(l, j + 1)
  ELSE LET j == PlainEnd(l, i) IN <<TextNode(SubSeq(l, i, j))>> \o Scan2(l, j + 1)

Inline2(l) == Process(Scan2(l, 1), 1)


(* ---- inline links (spec section 6.5 and the procedure "look for link or image"), alphabet a [ ] ( ) * --------------
   `[` pushes a bracket opener; `]` pops the nearest opener: if it is active and an inline destination `(dest)` follows
   directly (parentheses inside the destination balanced, the closing one present), the nodes since the opener become the
   link text (emphasis is processed inside it), every earlier opener is deactivated (links do not nest) and scanning
   continues after the `)`; otherwise the `]` is literal.  Emphasis for the rest is processed at the end. *)
RECURSIVE DestEnd(_, _, _)
DestEnd(l, i, depth) ==
  IF i > Len(l) THEN 0
  ELSE IF l[i] = "(" THEN DestEnd(l, i + 1, depth + 1)
  ELSE IF l[i] = ")" THEN (IF depth = 0 THEN i ELSE DestEnd(l, i + 1, depth - 1))
  ELSE DestEnd(l, i + 1, depth)
IsPunct3(c) == c \in {"*", "[", "]", "(", ")"}
DelimNode3(l, i, j) ==
  LET prev == IF i = 1 THEN "" ELSE l[i - 1]
      next == IF j = Len(l) THEN "" ELSE l[j + 1]
      lf == ~IsWs(next) /\ (~IsPunct3(next) \/ IsWs(prev) \/ IsPunct3(prev))
      rf == ~IsWs(prev) /\ (~IsPunct3(prev) \/ IsWs(next) \/ IsPunct3(next))
  IN [t |-> "delim", ch |-> "*", n |-> j - i + 1, orig |-> j - i + 1, co |-> lf, cc |-> rf, s |-> <<>>, tag |-> ""]
LinkOpen(dest) == [t |-> "open", ch |-> "", n |-> 0, orig |-> 0, co |-> FALSE, cc |-> FALSE, s |-> dest, tag |-> "a"]
RECURSIVE Scan3(_, _, _, _)
Scan3(l, i, out, stack) ==
  IF i > Len(l) THEN Process(out, 1)
  ELSE IF l[i] = "[" THEN Scan3(l, i + 1, Append(out, TextNode(<<"[">>)), Append(stack, [pos |-> Len(out) + 1, active |-> TRUE]))
  ELSE IF l[i] = "]" THEN
    IF stack = <<>> THEN Scan3(l, i + 1, Append(out, TextNode(<<"]">>)), stack)
    ELSE LET top == stack[Len(stack)]
             rest == SubSeq(stack, 1, Len(stack) - 1)
             close == IF i < Len(l) /\ l[i + 1] = "(" THEN DestEnd(l, i + 2, 0) ELSE 0 IN
         IF ~top.active \/ close = 0 THEN Scan3(l, i + 1, Append(out, TextNode(<<"]">>)), rest)
         ELSE LET inner == Process(SubSeq(out, top.pos + 1, Len(out)), 1)
                  out2 == SubSeq(out, 1, top.pos - 1) \o <<LinkOpen(SubSeq(l, i + 2, close - 1))>> \o [k \in 1..Len(inner) |-> Dead(inner[k])]
                          \o <<TagNode("close", "a")>> IN
              Scan3(l, close + 1, out2, [k \in 1..Len(rest) |-> [rest[k] EXCEPT !.active = FALSE]])
  ELSE IF l[i] = "*" THEN LET j == RunEnd(l, i, "*") IN Scan3(l, j + 1, Append(out, DelimNode3(l, i, j)), stack)
  ELSE Scan3(l, i + 1, Append(out, TextNode(<<l[i]>>)), stack)
Inline3(l) == Scan3(l, 1, <<>>, <<>>)
EncChar(c) == IF c = "[" THEN "%5B" ELSE IF c = "]" THEN "%5D" ELSE c

(* ---- raw HTML: open and closing tags (spec section 6.6) ------------------------------------------------------------
   An open tag is `<`, a tag name, zero or more attributes, optional white space, an optional `/`, and `>`.  An attribute is
   white space, an attribute name, and optionally a value specification: optional white space, `=`, optional white space and
   an unquoted value (non-empty, none of space " ' = < > `), a single-quoted value or a double-quoted value (both possibly
   EMPTY).  A closing tag is `</`, a tag name, optional white space, `>`.  What is not a tag is text (`<` is escaped). *)
IsLetter(c) == c \in {"a", "b", "c", "d", "x", "y"}
IsDigit4(c) == c \in {"0", "1", "2"}
RECURSIVE NameEnd(_, _)          \* last index of a run of name characters starting at i (i itself is already accepted)
NameEnd(l, i) == IF i < Len(l) /\ (IsLetter(l[i + 1]) \/ IsDigit4(l[i + 1]) \/ l[i + 1] \in {"-", "_", ".", ":"}) THEN NameEnd(l, i + 1) ELSE i
RECURSIVE TagNameEnd4(_, _)
TagNameEnd4(l, i) == IF i < Len(l) /\ (IsLetter(l[i + 1]) \/ IsDigit4(l[i + 1]) \/ l[i + 1] = "-") THEN TagNameEnd4(l, i + 1) ELSE i
RECURSIVE SkipWs4(_, _)
SkipWs4(l, i) == IF i <= Len(l) /\ l[i] = " " THEN SkipWs4(l, i + 1) ELSE i
At(l, i) == IF i >= 1 /\ i <= Len(l) THEN l[i] ELSE ""
RECURSIVE UnquotedEnd(_, _)      \* first index at or after i that cannot belong to an unquoted value
UnquotedEnd(l, i) == IF i <= Len(l) /\ l[i] \notin {" ", "\"", "'", "=", "<", ">", "`"} THEN UnquotedEnd(l, i + 1) ELSE i
RECURSIVE FindCh(_, _, _)
FindCh(l, i, ch) == IF i > Len(l) THEN 0 ELSE IF l[i] = ch THEN i ELSE FindCh(l, i + 1, ch)
(* position just after the attributes that start at i (where the optional white space, `/` and `>` are expected), or 0 *)
RECURSIVE AfterAttrs(_, _)
AfterAttrs(l, i) ==
  LET j == SkipWs4(l, i) IN
  IF j = i \/ ~(IsLetter(At(l, j)) \/ At(l, j) \in {"_", ":"}) THEN i            \* no (further) attribute
  ELSE LET k == NameEnd(l, j) + 1                                                  \* first index after the attribute name
           m == SkipWs4(l, k) IN
       IF At(l, m) # "=" THEN AfterAttrs(l, k)                                      \* attribute without value
       ELSE LET v == SkipWs4(l, m + 1) IN
            IF At(l, v) \in {"\"", "'"} THEN
                 LET c == FindCh(l, v + 1, l[v]) IN IF c = 0 THEN 0 ELSE LET r == AfterAttrs(l, c + 1) IN r
            ELSE LET u == UnquotedEnd(l, v) IN IF u = v THEN 0 ELSE AfterAttrs(l, u)
OpenTagEnd(l, i) ==              \* index of the closing `>` of an open tag starting at i, or 0
  IF At(l, i) # "<" \/ ~IsLetter(At(l, i + 1)) THEN 0
  ELSE LET a == AfterAttrs(l, TagNameEnd4(l, i + 1) + 1) IN
       IF a = 0 THEN 0
       ELSE LET b == SkipWs4(l, a)
                c == IF At(l, b) = "/" THEN b + 1 ELSE b IN
            IF At(l, c) = ">" THEN c ELSE 0
ClosingTagEnd(l, i) ==
  IF At(l, i) # "<" \/ At(l, i + 1) # "/" \/ ~IsLetter(At(l, i + 2)) THEN 0
  ELSE LET b == SkipWs4(l, TagNameEnd4(l, i + 2) + 1) IN IF At(l, b) = ">" THEN b ELSE 0
EscChar(c) == IF c = "<" THEN "&lt;" ELSE IF c = ">" THEN "&gt;" ELSE IF c = "\"" THEN "&quot;" ELSE IF c = "&" THEN "&amp;" ELSE c
RECURSIVE Scan4(_, _)
Scan4(l, i) ==
  IF i > Len(l) THEN <<>>
  ELSE LET e == IF OpenTagEnd(l, i) # 0 THEN OpenTagEnd(l, i) ELSE ClosingTagEnd(l, i) IN
       IF e # 0 THEN <<[TextNode(SubSeq(l, i, e)) EXCEPT !.t = "raw"]>> \o Scan4(l, e + 1)
       ELSE <<TextNode(<<EscChar(l[i])>>)>> \o Scan4(l, i + 1)
Inline4(l) == Scan4(l, 1)

(* ---- autolinks (spec section 6.5) and the remaining raw HTML forms (6.6) -------------------------------------------------
   URI autolink: `<`, a scheme (an ASCII letter followed by 1-31 letters, digits, `+`, `.`, `-`), `:`, zero or more characters
   other than space, `<`, `>`, and `>`.  Email autolink: `<`, one or more local characters, `@`, labels separated by `.`
   (a label starts and ends with a letter or digit and holds letters, digits and `-`; the 63 character limit is not modelled:
   no line of an alphabet reaches it), `>`.  Processing instruction `<?` .. `?>`, declaration `<!` NAME white space .. `>`, CDATA section
   `<![CDATA[` .. `]]>`.  Autolinks are tried first; what is none of these is text. *)
IsUpper5(c) == c \in {"A", "B", "X"}
IsAlnum5(c) == IsLetter(c) \/ IsDigit4(c) \/ IsUpper5(c)
IsSchemeCh(c) == IsAlnum5(c) \/ c \in {"+", ".", "-"}
RECURSIVE SchemeEnd(_, _)        \* last index of the run of scheme characters that starts at i
SchemeEnd(l, i) == IF i < Len(l) /\ IsSchemeCh(l[i + 1]) THEN SchemeEnd(l, i + 1) ELSE i
RECURSIVE UriEnd(_, _)           \* first index at or after i that cannot belong to the URI
UriEnd(l, i) == IF i <= Len(l) /\ l[i] \notin {" ", "<", ">"} THEN UriEnd(l, i + 1) ELSE i
UriAutolinkEnd(l, i) ==          \* index of the closing `>` of a URI autolink starting at i, or 0
  IF At(l, i) # "<" \/ ~(IsLetter(At(l, i + 1)) \/ IsUpper5(At(l, i + 1))) THEN 0
  ELSE LET s == SchemeEnd(l, i + 1)
           n == s - i IN
       IF n < 2 \/ n > 32 \/ At(l, s + 1) # ":" THEN 0
       ELSE LET e == UriEnd(l, s + 2) IN IF At(l, e) = ">" THEN e ELSE 0
IsLocalCh(c) == IsAlnum5(c) \/ c \in {".", "!", "#", "$", "%", "&", "'", "*", "+", "/", "=", "?", "^", "_", "`", "{", "|", "}", "~", "-"}
RECURSIVE LocalEnd(_, _)
LocalEnd(l, i) == IF i <= Len(l) /\ IsLocalCh(l[i]) THEN LocalEnd(l, i + 1) ELSE i
RECURSIVE LabelRun(_, _)
LabelRun(l, i) == IF i <= Len(l) /\ (IsAlnum5(l[i]) \/ l[i] = "-") THEN LabelRun(l, i + 1) ELSE i
RECURSIVE DomainEnd(_, _)        \* first index after a well-formed domain that starts at i, or 0
DomainEnd(l, i) ==
  LET j == LabelRun(l, i) IN
  IF j = i \/ ~IsAlnum5(l[i]) \/ ~IsAlnum5(l[j - 1]) THEN 0
  ELSE IF At(l, j) = "." THEN DomainEnd(l, j + 1) ELSE j
EmailAutolinkEnd(l, i) ==
  IF At(l, i) # "<" THEN 0
  ELSE LET a == LocalEnd(l, i + 1) IN
       IF a = i + 1 \/ At(l, a) # "@" THEN 0
       ELSE LET d == DomainEnd(l, a + 1) IN IF d # 0 /\ At(l, d) = ">" THEN d ELSE 0
RECURSIVE FindSeq(_, _, _)       \* first index k >= i with l[k .. k+Len(w)-1] = w, or 0
FindSeq(l, i, w) == IF i + Len(w) - 1 > Len(l) THEN 0 ELSE IF SubSeq(l, i, i + Len(w) - 1) = w THEN i ELSE FindSeq(l, i + 1, w)
PIEnd(l, i) == IF At(l, i) = "<" /\ At(l, i + 1) = "?"
               THEN LET k == FindSeq(l, i + 2, <<"?", ">">>) IN IF k = 0 THEN 0 ELSE k + 1 ELSE 0
CDataOpen == <<"<", "!", "[", "C", "D", "A", "T", "A", "[">>
CDataEnd(l, i) == IF i + 8 <= Len(l) /\ SubSeq(l, i, i + 8) = CDataOpen
                  THEN LET k == FindSeq(l, i + 9, <<"]", "]", ">">>) IN IF k = 0 THEN 0 ELSE k + 2 ELSE 0
RECURSIVE UpperEnd(_, _)
UpperEnd(l, i) == IF i < Len(l) /\ IsUpper5(l[i + 1]) THEN UpperEnd(l, i + 1) ELSE i
(* the declarations on which CommonMark 0.29 (`<!`, upper-case name, white space, text, `>`) and 0.31 (`<!`, letter, text, `>`) agree
   are the former; lines that only 0.31 accepts are left to the corroborator's veto *)
DeclEnd(l, i) == IF At(l, i) = "<" /\ At(l, i + 1) = "!" /\ IsUpper5(At(l, i + 2))
                 THEN LET n == UpperEnd(l, i + 2) IN IF At(l, n + 1) # " " THEN 0 ELSE FindCh(l, n + 2, ">") ELSE 0
(* what a renderer writes into href: characters outside the URI-safe set are percent-encoded, then `&` is escaped *)
EncUri(c) == CASE c = "\\" -> "%5C" [] c = "[" -> "%5B" [] c = "]" -> "%5D" [] c = "\"" -> "%22" [] c = "`" -> "%60"
               [] c = "^" -> "%5E" [] c = "{" -> "%7B" [] c = "|" -> "%7C" [] c = "}" -> "%7D" [] c = "&" -> "&amp;" [] OTHER -> c
FirstNonZero(s) == IF \E k \in 1..Len(s) : s[k] # 0 THEN s[CHOOSE k \in 1..Len(s) : s[k] # 0 /\ \A j \in 1..(k - 1) : s[j] = 0] ELSE 0
RECURSIVE Scan5(_, _)
Scan5(l, i) ==
  IF i > Len(l) THEN <<>>
  ELSE LET u == UriAutolinkEnd(l, i)
           m == EmailAutolinkEnd(l, i)
           e == FirstNonZero(<<OpenTagEnd(l, i), ClosingTagEnd(l, i), PIEnd(l, i), CDataEnd(l, i), DeclEnd(l, i)>>) IN
       IF u # 0 THEN <<[TextNode(SubSeq(l, i + 1, u - 1)) EXCEPT !.t = "auto"]>> \o Scan5(l, u + 1)
       ELSE IF m # 0 THEN <<[TextNode(SubSeq(l, i + 1, m - 1)) EXCEPT !.t = "mail"]>> \o Scan5(l, m + 1)
       ELSE IF e # 0 THEN <<[TextNode(SubSeq(l, i, e)) EXCEPT !.t = "raw"]>> \o Scan5(l, e + 1)
       ELSE <<TextNode(<<EscChar(l[i])>>)>> \o Scan5(l, i + 1)
Inline5(l) == Scan5(l, 1)
Map(s, F(_)) == [k \in 1..Len(s) |-> F(s[k])]

Piece(nd) ==
  CASE nd.t = "text" -> nd.s
    [] nd.t = "code" -> <<"<code>">> \o nd.s \o <<"</code>">>
    [] nd.t = "raw" -> nd.s
    [] nd.t = "auto" -> <<"<a href=\"">> \o Map(nd.s, EncUri) \o <<"\">">> \o Map(nd.s, EscChar) \o <<"</a>">>
    [] nd.t = "mail" -> <<"<a href=\"mailto:">> \o Map(nd.s, EncUri) \o <<"\">">> \o Map(nd.s, EscChar) \o <<"</a>">>
    [] nd.t = "delim" -> Repeat(nd.ch, nd.n)
    [] nd.t = "open" /\ nd.tag = "a" -> <<"<a href=\"">> \o [k \in 1..Len(nd.s) |-> EncChar(nd.s[k])] \o <<"\">">>
    [] nd.t = "close" /\ nd.tag = "a" -> <<"</a>">>
    [] nd.t = "open" -> <<IF nd.tag = "em" THEN "<em>" ELSE "<strong>">>
    [] nd.t = "close" -> <<IF nd.tag = "em" THEN "</em>" ELSE "</strong>">>
RECURSIVE Render(_)
Render(nodes) == IF nodes = <<>> THEN <<>> ELSE Piece(nodes[1]) \o Render(Tail(nodes))

(* well-formedness of the result (checked by TLC for every line of the alphabet) *)
RECURSIVE Balanced(_, _)
Balanced(nodes, stack) ==
  IF nodes = <<>> THEN stack = <<>>
  ELSE IF nodes[1].t = "open" THEN Balanced(Tail(nodes), Append(stack, nodes[1].tag))
  ELSE IF nodes[1].t = "close" THEN stack # <<>> /\ stack[Len(stack)] = nodes[1].tag /\ Balanced(Tail(nodes), SubSeq(stack, 1, Len(stack) - 1))
  ELSE Balanced(Tail(nodes), stack)
RECURSIVE CountDelims(_)
CountDelims(s) == IF s = <<>> THEN 0 ELSE (IF IsDelim(s[1]) THEN 1 ELSE 0) + CountDelims(Tail(s))
RECURSIVE Consumed(_)
Consumed(nodes) == IF nodes = <<>> THEN 0
                   ELSE (IF nodes[1].t = "open" THEN (IF nodes[1].tag = "em" THEN 2 ELSE 4) ELSE 0) + Consumed(Tail(nodes))
(* every delimiter character of the line is either literal text in the result or consumed by a tag pair *)
Conserved(l) == CountDelims(l) = CountDelims(Render(Emph(l))) + Consumed(Emph(l))
=============================================================================
