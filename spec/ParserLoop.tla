----------------------------- MODULE ParserLoop -----------------------------
(* The main loop of the block pass of the IMPLEMENTATION (TokenizedMarkdown.__parse_blocks_pass), not of
   CommonMark.  Each iteration processes one line: read from the source, or popped from the requeue.
   A multi-line link reference definition that turns out not to be one hands its lines back: the step
   "requeues" k lines (the lines the definition held, plus the current line unless the loop is closing), the
   first of which is processed next with the flag "this line must not start a definition".  After the last
   line a closing step runs; it too can requeue.

   State at the granularity of the probe event `pstep` (one event per iteration):
     ln       line number of the line being processed next
     rq       length of the requeue AFTER the next line has been taken from it
     src      source lines not yet read
     ign      the next line must not start a link reference definition
     closing  the next iteration is the closing step
     lastStart line number of the first line of the most recent requeue (0: none yet)

   Termination (property C01): a requeue starts at a line number strictly greater than the previous
   requeue's start (the flagged first line can no longer begin the same definition), so at most NLines requeues
   happen, and between requeues every iteration consumes a line -- except that the container code may hand the
   current line back ONCE to be parsed again after it closed some blocks (LineRepeat). *)
EXTENDS Integers

CONSTANTS NLines
VARIABLES ln, rq, src, ign, closing, done, lastStart,
          rep      \* the line being processed is a repetition (the container code handed the same line back once)
plvars == <<ln, rq, src, ign, closing, done, lastStart, rep>>

(* the first line has been read: NLines - 1 remain in the source; an empty source starts closing at once *)
PInit == /\ ln = 1 /\ rq = 0 /\ src = (IF NLines > 0 THEN NLines - 1 ELSE 0) /\ ign = FALSE
         /\ closing = (NLines = 0) /\ done = FALSE /\ lastStart = 0 /\ rep = FALSE

(* how the loop obtains its next line: requeue first, else the source, else it starts closing *)
Advance == IF rq > 0 THEN rq' = rq - 1 /\ src' = src /\ closing' = FALSE
           ELSE IF src > 0 THEN rq' = 0 /\ src' = src - 1 /\ closing' = FALSE
           ELSE rq' = 0 /\ src' = src /\ closing' = TRUE

Line ==                                    \* an ordinary iteration
  /\ ~closing /\ ~done
  /\ ln' = ln + 1 /\ ign' = FALSE /\ rep' = FALSE /\ Advance /\ UNCHANGED <<done, lastStart>>

(* the container processing closed some blocks and wants the SAME line parsed again: at most once per visit of a line *)
LineRepeat ==
  /\ ~closing /\ ~done /\ ~rep
  /\ rep' = TRUE /\ ign' = FALSE /\ closing' = FALSE /\ UNCHANGED <<ln, rq, src, done, lastStart>>

LineRequeue(k) ==                          \* the current line and k-1 held lines go back
  /\ ~closing /\ ~done /\ k >= 2
  /\ LET s == ln - (k - 1) IN
       /\ s >= 1 /\ s > lastStart           \* variant: requeues start further and further down
       /\ lastStart' = s /\ ln' = s
  /\ rq' = rq + k - 1 /\ ign' = TRUE /\ closing' = FALSE /\ rep' = FALSE /\ UNCHANGED <<src, done>>

CloseRequeue(k) ==                         \* closing with a definition pending: its k lines go back
  /\ closing /\ ~done /\ k >= 1 /\ rq = 0
  /\ LET s == ln - k IN
       /\ s >= 1 /\ s > lastStart
       /\ lastStart' = s /\ ln' = s
  /\ rq' = k - 1 /\ ign' = TRUE /\ closing' = FALSE /\ rep' = FALSE /\ UNCHANGED <<src, done>>

Close == closing /\ ~done /\ done' = TRUE /\ UNCHANGED <<ln, rq, src, ign, closing, lastStart, rep>>

PNext == Line \/ LineRepeat \/ (\E k \in 2..(NLines + 1) : LineRequeue(k)) \/ (\E k \in 1..NLines : CloseRequeue(k)) \/ Close
PSpec == PInit /\ [][PNext]_plvars /\ WF_plvars(PNext)
Termination == <>done
LineCounterSane == ln >= 1 /\ ln <= NLines + 2 /\ rq >= 0 /\ rq <= NLines + 1
=============================================================================
