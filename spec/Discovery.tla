----------------------------- MODULE Discovery -----------------------------
(* Which files a list of path arguments designates (user guide: Basic Scanning, Advanced
   Scanning; property C19).

   A tree is a set of entries [path |-> <<component, ...>>, isdir |-> BOOLEAN]; a component and
   an argument are sequences of 1-character strings.  An argument that contains `*` or `?` is a
   glob (Python glob, not recursive: `*` any run, `?` one character, `[...]` a character class;
   none of them matches the `/` separator); any other argument is the literal name of a file or
   directory.  Select gives
       [kind |-> "error"]                      a path that does not exist, a named file that is not
                                               eligible, or a glob without a match: nothing is processed
       [kind |-> "nofiles"]                    no argument is in error but no file is selected
       [kind |-> "files", files |-> S]         S: the selected files (identity = normalised path),
                                               each once; the implementation must present them sorted. *)
EXTENDS Naturals, Sequences, FiniteSets

Last(s) == s[Len(s)]
IsPrefix(p, s) == Len(p) <= Len(s) /\ SubSeq(s, 1, Len(p)) = p

(* ---- arguments: split at "/" into components ------------------------------------------- *)
RECURSIVE SplitAt(_, _, _)
SplitAt(s, i, acc) ==            \* acc: <<finished components..., current component>>
  IF i > Len(s) THEN acc
  ELSE IF s[i] = "/" THEN SplitAt(s, i + 1, Append(acc, <<>>))
  ELSE SplitAt(s, i + 1, [acc EXCEPT ![Len(acc)] = Append(@, s[i])])
Components(arg) == SplitAt(arg, 1, << <<>> >>)
(* normalised: "." components and empty components (doubled or trailing "/") dropped; ".." is resolved against the tree (Resolve) *)
Norm(cs) == SelectSeq(cs, LAMBDA c : c # <<>> /\ c # <<".">>)
IsGlob(arg) == \E i \in 1..Len(arg) : arg[i] \in {"*", "?"}

(* ---- fnmatch of one component -------------------------------------------------------------- *)
ClassEnd(p, i) ==                \* index of the "]" closing a class opened at p[i] = "[", or 0
  IF \E k \in (i + 2)..Len(p) : p[k] = "]"
  THEN CHOOSE k \in (i + 2)..Len(p) : p[k] = "]" /\ \A m \in (i + 2)..(k - 1) : p[m] # "]"
  ELSE 0
RECURSIVE Match(_, _, _, _)
Match(p, i, n, j) ==
  IF i > Len(p) THEN j > Len(n)
  ELSE IF p[i] = "*" THEN Match(p, i + 1, n, j) \/ (j <= Len(n) /\ Match(p, i, n, j + 1))
  ELSE IF p[i] = "?" THEN j <= Len(n) /\ Match(p, i + 1, n, j + 1)
  ELSE IF p[i] = "[" /\ ClassEnd(p, i) # 0 THEN
       LET k == ClassEnd(p, i) IN
       j <= Len(n) /\ (\E m \in (i + 1)..(k - 1) : p[m] = n[j]) /\ Match(p, k + 1, n, j + 1)
  ELSE j <= Len(n) /\ n[j] = p[i] /\ Match(p, i + 1, n, j + 1)
Fn(p, n) == Match(p, 1, n, 1)

(* ---- the tree ------------------------------------------------------------------------------ *)
Lookup(tree, path) == {e \in tree : e.path = path}
Exists(tree, path) == path = <<>> \/ Lookup(tree, path) # {}
IsDir(tree, path) == path = <<>> \/ \E e \in Lookup(tree, path) : e.isdir

RECURSIVE EndsWith(_, _)
EndsWith(name, ext) == Len(ext) <= Len(name) /\ SubSeq(name, Len(name) - Len(ext) + 1, Len(name)) = ext
Eligible(path, exts) == \E x \in exts : EndsWith(Last(path), x)

FilesIn(tree, dir, recurse, exts) ==
  {e.path : e \in {x \in tree : /\ ~x.isdir
                               /\ IsPrefix(dir, x.path) /\ Len(x.path) > Len(dir)
                               /\ (recurse \/ Len(x.path) = Len(dir) + 1)
                               /\ Eligible(x.path, exts)}}

(* what one existing path contributes: [err |-> BOOLEAN, files |-> set] *)
FromPath(tree, path, recurse, exts, named) ==
  IF IsDir(tree, path) THEN [err |-> FALSE, files |-> FilesIn(tree, path, recurse, exts)]
  ELSE IF Eligible(path, exts) THEN [err |-> FALSE, files |-> {path}]
  ELSE [err |-> named, files |-> {}]       \* a NAMED ineligible file is an error; a globbed one is skipped

(* expansion of a glob argument: entries matched component by component *)
GlobMatches(tree, cs) ==
  {e.path : e \in {x \in tree : /\ Len(x.path) = Len(cs)
                               /\ \A i \in 1..Len(cs) : Fn(cs[i], x.path[i])
                               /\ \A k \in 1..(Len(cs) - 1) : IsDir(tree, SubSeq(x.path, 1, k))}}

(* ".." steps back out of an EXISTING DIRECTORY (as the file system resolves it); out of anything else the path does not exist *)
RECURSIVE Resolve(_, _, _)
Resolve(tree, cs, acc) ==
  IF cs = <<>> THEN [ok |-> TRUE, path |-> acc]
  ELSE IF cs[1] = <<".", ".">> THEN
         IF acc # <<>> /\ Exists(tree, acc) /\ IsDir(tree, acc) THEN Resolve(tree, Tail(cs), SubSeq(acc, 1, Len(acc) - 1))
         ELSE [ok |-> FALSE, path |-> <<>>]
  ELSE Resolve(tree, Tail(cs), Append(acc, cs[1]))

FromArg(tree, arg, recurse, exts) ==
  LET r == Resolve(tree, Norm(Components(arg)), <<>>)
      cs == r.path IN
  IF ~r.ok THEN [err |-> TRUE, files |-> {}]
  ELSE IF IsGlob(arg) THEN
     LET ms == GlobMatches(tree, cs) IN
     IF ms = {} THEN [err |-> TRUE, files |-> {}]
     ELSE [err |-> FALSE, files |-> UNION {FromPath(tree, m, recurse, exts, FALSE).files : m \in ms}]
  ELSE IF ~Exists(tree, cs) THEN [err |-> TRUE, files |-> {}]
  ELSE IF Last(arg) = "/" /\ ~IsDir(tree, cs) THEN [err |-> TRUE, files |-> {}]   \* "file.md/" does not exist
  ELSE FromPath(tree, cs, recurse, exts, TRUE)

Select(tree, args, recurse, exts) ==
  LET rs == [i \in 1..Len(args) |-> FromArg(tree, args[i], recurse, exts)]
      all == UNION {rs[i].files : i \in 1..Len(args)} IN
  IF \E i \in 1..Len(args) : rs[i].err THEN [kind |-> "error", files |-> {}]
  ELSE IF all = {} THEN [kind |-> "nofiles", files |-> {}]
  ELSE [kind |-> "files", files |-> all]

(* the argument that is first in error, if any (the implementation reports that one) *)
FirstError(tree, args, recurse, exts) ==
  IF \E i \in 1..Len(args) : FromArg(tree, args[i], recurse, exts).err
  THEN CHOOSE i \in 1..Len(args) : FromArg(tree, args[i], recurse, exts).err
                                    /\ \A j \in 1..(i - 1) : ~FromArg(tree, args[j], recurse, exts).err
  ELSE 0

(* ---- properties of Select itself (checked by TLC in MC_Discovery) ---------------------------- *)
Perm2(args) == <<args[2], args[1]>>
OrderIndependent(tree, args, recurse, exts) ==
  Len(args) = 2 => Select(tree, args, recurse, exts) = Select(tree, Perm2(args), recurse, exts)
Idempotent(tree, args, recurse, exts) ==
  Len(args) >= 1 => Select(tree, args \o <<args[1]>>, recurse, exts) = Select(tree, args, recurse, exts)
RecurseMonotone(tree, args, exts) ==
  Select(tree, args, FALSE, exts).files \subseteq Select(tree, args, TRUE, exts).files
OnlyEligibleExisting(tree, args, recurse, exts) ==
  \A p \in Select(tree, args, recurse, exts).files :
      Lookup(tree, p) # {} /\ ~IsDir(tree, p) /\ Eligible(p, exts)
=============================================================================
