---------------------------- MODULE FixSched_apa ----------------------------
(* Apalache wrapper for FixSched: for SIX rules and EVERY assignment of levels 0..5 to them (ConstInit), every Dirties relation
   that only points to strictly higher levels, and every initial trigger set:  IndInv is inductive and implies Converged
   (one run leaves nothing fixable behind).  TLC (MC_FixSched) explores four rules with one fixed level map.
     apalache-mc check --cinit=ConstInit --init=AInit --inv=IndInv --length=0 FixSched_apa.tla
     apalache-mc check --cinit=ConstInit --init=IndInit --inv=IndInv --length=1 FixSched_apa.tla *)
EXTENDS Integers, FiniteSets

CONSTANTS
  \* @type: Set(Str);
  Rules,
  \* @type: Str -> Int;
  Level

VARIABLES
  \* @type: Set(Str);
  trig,
  \* @type: Int;
  level,
  \* @type: Str;
  state,
  \* @type: Set(<<Str, Str>>);
  dirties

INSTANCE FixSched

ConstInit == Rules = {"r1", "r2", "r3", "r4", "r5", "r6"} /\ Level \in [Rules -> 0..5]
\* @type: (Set(<<Str, Str>>)) => Bool;
Upward(d) == \A p \in d : Level[p[2]] > Level[p[1]]
AInit == /\ dirties \in SUBSET (Rules \X Rules) /\ Upward(dirties)
         /\ trig \in SUBSET Rules /\ level = -1 /\ state = "idle"
ANext ==
  \/ FirstPass /\ UNCHANGED dirties
  \/ \E D \in SUBSET Rules :
       /\ D \subseteq {p[2] : p \in {q \in dirties : q[1] \in trig \cap FixList}}
       /\ RunPass(D) /\ UNCHANGED dirties
Next == ANext
IndInv ==
  /\ state \in {"idle", "pass", "done"} /\ trig \subseteq Rules
  /\ dirties \subseteq (Rules \X Rules) /\ Upward(dirties)
  /\ (state = "idle" => level = -1)
  /\ (state = "pass" => /\ \E r \in Rules : Level[r] = level
                        /\ \A r \in trig : Level[r] >= level)
  /\ (state = "done" => trig = {})
IndInit ==
  /\ dirties \in SUBSET (Rules \X Rules) /\ trig \in SUBSET Rules
  /\ level \in -1..5 /\ state \in {"idle", "pass", "done"}
  /\ IndInv
ConvergedInv == state = "done" => trig = {}
=============================================================================
