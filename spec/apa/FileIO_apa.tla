---------------------------- MODULE FileIO_apa ----------------------------
(* Apalache wrapper for FileIO: the write-back procedure "rename" keeps the target complete in EVERY state, for any number
   of write-backs and any number of write calls (no MaxPasses / MaxChunks bound): IndInv is inductive.
     apalache-mc check --init=IndInit --inv=IndInv --length=1 FileIO_apa.tla     (IndInit = IndInv: consecution)
     apalache-mc check --init=Init --inv=IndInv --length=0 FileIO_apa.tla        (initiation)
   and IndInv => AtomicTarget for proc = "rename". *)
EXTENDS Integers

VARIABLES
  \* @type: Str;
  proc,
  \* @type: Int;
  npasses,
  \* @type: { stage: Int, part: Str };
  target,
  \* @type: Int;
  pass,
  \* @type: Str;
  pc,
  \* @type: Int;
  written,
  \* @type: Bool;
  crashed

Procs == {"rename"}
MaxPasses == 1000000
MaxChunks == 1000000
INSTANCE FileIO

IndInv ==
  /\ proc = "rename" /\ npasses >= 1 /\ pass >= 0 /\ pass <= npasses /\ written >= 0
  /\ pc \in {"idle", "tmp", "tmpfull", "done"}
  /\ crashed \in BOOLEAN
  /\ target.part = "full" /\ target.stage = pass
  /\ (pc = "done" => pass = npasses)
  /\ (pc \in {"tmp", "tmpfull"} => pass < npasses)          \* found by Apalache's counterexample to induction
IndInit ==
  /\ proc = "rename"
  /\ npasses \in 1..MaxPasses /\ pass \in 0..MaxPasses /\ written \in 0..MaxChunks
  /\ pc \in {"idle", "tmp", "tmpfull", "done"} /\ crashed \in BOOLEAN
  /\ target = [stage |-> pass, part |-> "full"]
  /\ IndInv
Atomic == target.part = "full"
=============================================================================
