------------------------------- MODULE FixNorm -------------------------------
(* What fix mode may change (property C08).  A document is observed through an independent renderer
   (markdown-it) as the sequence of its blocks in document order; a block is
     [k |-> kind, t |-> text, lv |-> level / start number, links |-> sequence of link and image targets]
   with kinds  h (heading), p (paragraph), code, html, hr, and the container brackets bq( )bq, ul( )ul, ol( )ol, li( )li.
   The harness has already applied the TEXT-level normalisation the fixing rules are documented to perform:
   whitespace runs collapsed and trimmed (MD009, MD010, MD019-MD023, MD027, MD030, MD037-MD039), emphasis
   delimiters dropped from the text (MD037 turns `* a *` into emphasis), letter case folded (MD044).
   This module states the STRUCTURE-level normalisation:
     - a heading may change its level (MD001) and its style (ATX/setext is not visible in the blocks at all);
     - an ordered list may change its start number (MD029); bullet characters are not visible;
     - a code block may change between indented and fenced (MD046), fence character and length are not visible;
     - blank lines may come and go (MD012, MD022, MD031, MD032, MD047): not visible in the block sequence,
       except that a list may change between tight and loose -- paragraphs directly inside list items are
       compared as text whether or not they are wrapped;
   and NOTHING else: same number of blocks, same kinds in the same order, same text, same link targets. *)
EXTENDS Naturals, Sequences

(* changing a bullet character or an ordered-list delimiter (MD004) can merge or split neighbouring lists of the
   same type: a closing bracket directly followed by the opening bracket of the same list type is not a difference *)
RECURSIVE Squash(_)
Squash(A) ==
  IF Len(A) < 2 THEN A
  ELSE IF (A[1].k = ")ul" /\ A[2].k = "ul(") \/ (A[1].k = ")ol" /\ A[2].k = "ol(") THEN Squash(SubSeq(A, 3, Len(A)))
  ELSE <<A[1]>> \o Squash(SubSeq(A, 2, Len(A)))

SameBlock(a, b) ==
  /\ a.k = b.k
  /\ a.t = b.t
  /\ a.links = b.links
  /\ (a.k \notin {"h", "ol("}) => a.lv = b.lv

EquivalentRaw(A, B) == Len(A) = Len(B) /\ \A i \in 1..Len(A) : SameBlock(A[i], B[i])
Equivalent(A, B) == EquivalentRaw(Squash(A), Squash(B))

FirstDifference(A, B) ==
  IF \E i \in 1..(IF Len(A) < Len(B) THEN Len(A) ELSE Len(B)) : ~SameBlock(A[i], B[i])
  THEN CHOOSE i \in 1..(IF Len(A) < Len(B) THEN Len(A) ELSE Len(B)) :
         ~SameBlock(A[i], B[i]) /\ \A j \in 1..(i - 1) : SameBlock(A[j], B[j])
  ELSE (IF Len(A) < Len(B) THEN Len(A) ELSE Len(B)) + 1
=============================================================================
