-------------------------------- MODULE App --------------------------------
(* One run of the application (`pymarkdown [options] <command> ...`) as a state machine.

   Every action corresponds to one step of the implementation that is observable through
   a probe event (file_scan_helper.py, return_code_helper.py, plugin_manager.py,
   tokenized_markdown.py) or through the command line / process status.  The action
   parameters are bound
     - by MC_App     to every value (free exploration: the guards imply the invariants),
     - by MC_AppScen to the script of an abstract scenario (replayed into the real code),
     - by Trace_App  to the fields of recorded events (trace validation of real runs).

   Properties served: C10 (changed <=> announced <=> result; scan is read-only),
   C13/C19 (each file once, in sorted order), C15 (errors never masked, stop / continue,
   no temporary file left), C18 (exit table, precedence of categories), C09 (levels increase). *)
EXTENDS Integers, Sequences, FiniteSets

CONSTANTS Files         \* file identifiers: positive integers ordered like the sorted file names

Categories == {"SUCCESS", "NO_FILES_TO_SCAN", "COMMAND_LINE_ERROR", "FIXED_AT_LEAST_ONE_FILE",
               "SCAN_TRIGGERED_AT_LEAST_ONCE", "SYSTEM_ERROR"}
Schemes == {"default", "minimal"}

(* The table of the user guide (newdocs/src/user-guide.md, --return-code-scheme). *)
ExitTable(s, cat) ==
  CASE cat = "SUCCESS" -> 0
    [] cat = "NO_FILES_TO_SCAN" -> IF s = "default" THEN 1 ELSE 0
    [] cat = "COMMAND_LINE_ERROR" -> 2
    [] cat = "FIXED_AT_LEAST_ONE_FILE" -> IF s = "default" THEN 3 ELSE 0
    [] cat = "SCAN_TRIGGERED_AT_LEAST_ONCE" -> IF s = "default" THEN 1 ELSE 0
    [] cat = "SYSTEM_ERROR" -> 1

Modes == {"scan", "fix", "stdin", "other"}       \* stdin: one pseudo file; other: no file processing

VARIABLES
  pc,          \* "init" | "files" | "exited"
  mode, scheme, coe,
  cur,         \* file being processed, or 0
  last,        \* last file begun (0: none) -- files are visited in strictly increasing order
  wb,          \* completed write-backs of the current file
  wbOpen,      \* a write-back has begun and not ended
  level,       \* fix level of the current/last pass of the current file (-1: none yet)
  inPass,      \* a fix pass is open (level_begin seen, level_end not yet)
  passSeen,    \* pass_end seen for the open pass
  passWb,      \* write-backs completed when the open pass began
  errCur,      \* an error was reported for the current file
  perr,        \* the parser failed and nobody has reported it yet
  announced, changed, failed, visited,   \* sets of files
  nfail,       \* failures printed (not suppressed)
  fatal,       \* an error was reported in the long form: the run must now end with SYSTEM_ERROR
  temps,       \* live temporary files
  exitCat, exitCode

runV  == <<mode, scheme, coe>>
fileV == <<cur, last, wb, wbOpen, level, inPass, passSeen, passWb, errCur, perr>>
setV  == <<announced, changed, failed, visited>>
exitV == <<exitCat, exitCode>>
vars  == <<pc, runV, fileV, setV, nfail, fatal, temps, exitV>>

Init ==
  /\ pc = "init" /\ mode = "other" /\ scheme = "default" /\ coe = FALSE
  /\ cur = 0 /\ last = 0 /\ wb = 0 /\ wbOpen = FALSE /\ level = -1 /\ inPass = FALSE
  /\ passSeen = FALSE /\ passWb = 0 /\ errCur = FALSE /\ perr = FALSE
  /\ announced = {} /\ changed = {} /\ failed = {} /\ visited = {}
  /\ nfail = 0 /\ fatal = FALSE /\ temps = {} /\ exitCat = "" /\ exitCode = -1

(* the command line was accepted and the configuration loaded *)
Start(m, s, c) ==
  /\ pc = "init" /\ m \in Modes /\ s \in Schemes /\ c \in BOOLEAN
  /\ pc' = "files" /\ mode' = m /\ scheme' = s /\ coe' = c
  /\ UNCHANGED <<fileV, setV, nfail, fatal, temps, exitV>>

FileBegin(f) ==
  /\ pc = "files" /\ mode # "other" /\ cur = 0 /\ ~fatal
  /\ f \in Files /\ f \notin visited /\ f > last              \* each file once, in sorted order
  /\ mode = "stdin" => visited = {}
  /\ cur' = f /\ last' = f /\ visited' = visited \cup {f}
  /\ wb' = 0 /\ wbOpen' = FALSE /\ level' = -1 /\ inPass' = FALSE /\ errCur' = FALSE
  /\ passSeen' = FALSE /\ passWb' = 0 /\ perr' = FALSE
  /\ UNCHANGED <<pc, runV, announced, changed, failed, nfail, fatal, temps, exitV>>

(* a rule failure is reported (printed unless a pragma suppressed it); never in fix mode *)
Failure(suppressed) ==
  /\ pc = "files" /\ mode \in {"scan", "stdin"} /\ cur # 0
  /\ nfail' = IF suppressed THEN nfail ELSE nfail + 1
  /\ UNCHANGED <<pc, runV, fileV, setV, fatal, temps, exitV>>

(* the parser gave up on the current file *)
ParseFail ==
  /\ pc = "files" /\ cur # 0
  /\ perr' = TRUE
  /\ UNCHANGED <<pc, runV, cur, last, wb, wbOpen, level, inPass, passSeen, passWb, errCur, setV, nfail, fatal,
                 temps, exitV>>

LevelBegin(f, lv) ==
  /\ pc = "files" /\ mode = "fix" /\ cur = f /\ f # 0 /\ ~inPass /\ ~errCur /\ ~perr
  /\ lv > level                                                 \* fix levels strictly increase
  /\ level' = lv /\ inPass' = TRUE /\ passSeen' = FALSE /\ passWb' = wb
  /\ UNCHANGED <<pc, runV, cur, last, wb, wbOpen, errCur, perr, setV, nfail, fatal, temps, exitV>>

TmpNew(t) ==
  /\ pc = "files" /\ inPass /\ t \notin temps
  /\ temps' = temps \cup {t}
  /\ UNCHANGED <<pc, runV, fileV, setV, nfail, fatal, exitV>>

TmpDel(t) ==
  /\ pc = "files" /\ t \in temps
  /\ temps' = temps \ {t}
  /\ UNCHANGED <<pc, runV, fileV, setV, nfail, fatal, exitV>>

(* the target file is about to be replaced by the content of temporary file t *)
WritebackBegin(f, t) ==
  /\ pc = "files" /\ mode = "fix" /\ cur = f /\ f # 0 /\ inPass /\ ~passSeen /\ ~wbOpen /\ ~errCur /\ ~perr
  /\ t \in temps
  /\ wbOpen' = TRUE
  /\ UNCHANGED <<pc, runV, cur, last, wb, level, inPass, passSeen, passWb, errCur, perr, setV, nfail, fatal,
                 temps, exitV>>

WritebackEnd(f) ==
  /\ pc = "files" /\ cur = f /\ wbOpen
  /\ wbOpen' = FALSE /\ wb' = wb + 1 /\ changed' = changed \cup {f}
  /\ UNCHANGED <<pc, runV, cur, last, level, inPass, passSeen, passWb, errCur, perr, announced, failed, visited,
                 nfail, fatal, temps, exitV>>

(* end of one pass: it says "something was fixed" exactly if it wrote the file back *)
PassEnd(f, fixedSomething) ==
  /\ pc = "files" /\ cur = f /\ inPass /\ ~wbOpen /\ ~passSeen
  /\ fixedSomething = (wb > passWb)
  /\ passSeen' = TRUE
  /\ UNCHANGED <<pc, runV, cur, last, wb, wbOpen, level, inPass, passWb, errCur, perr, setV, nfail, fatal,
                 temps, exitV>>

LevelEnd(f, keep, nextLevel) ==
  /\ pc = "files" /\ cur = f /\ inPass /\ passSeen
  /\ keep => nextLevel > level
  /\ inPass' = FALSE
  /\ UNCHANGED <<pc, runV, cur, last, wb, wbOpen, level, passSeen, passWb, errCur, perr, setV, nfail, fatal,
                 temps, exitV>>

(* an error (plugin, fix conflict, parser) is reported for file f.
   shortcut: the one-line form that lets the run continue -- only with continue-on-error. *)
ScanError(f, shortcut) ==
  /\ pc = "files" /\ mode # "other" /\ cur = f /\ f # 0
  /\ shortcut => coe
  /\ errCur' = TRUE /\ perr' = FALSE
  /\ fatal' = (fatal \/ ~shortcut)
  /\ UNCHANGED <<pc, runV, cur, last, wb, wbOpen, level, inPass, passSeen, passWb, setV, nfail, temps, exitV>>

Announce(f) ==
  /\ pc = "files" /\ mode = "fix" /\ cur = f /\ f # 0 /\ f \notin announced /\ ~inPass /\ ~errCur /\ ~perr
  /\ wb > 0                                                     \* announced => bytes were written
  /\ announced' = announced \cup {f}
  /\ UNCHANGED <<pc, runV, fileV, changed, failed, visited, nfail, fatal, temps, exitV>>

FileEnd(f, ok, fixed) ==
  /\ pc = "files" /\ cur = f /\ f # 0 /\ ~wbOpen /\ ~fatal /\ ~perr
  /\ ok = ~errCur                                               \* an error is never forgotten
  /\ fixed = (f \in announced)                                  \* result flag <=> announced
  /\ ok => ((f \in changed) = (f \in announced))                \* changed <=> announced
  /\ ok => ~inPass
  /\ cur' = 0 /\ failed' = IF ok THEN failed ELSE failed \cup {f}
  /\ UNCHANGED <<pc, runV, last, wb, wbOpen, level, inPass, passSeen, passWb, errCur, perr, announced, changed,
                 visited, nfail, fatal, temps, exitV>>

(* The category the run must end with, given what happened: error > fixed > triggered > success.
   Leaving in the middle of a file, or with an unreported parser failure, is an error. *)
Abnormal == fatal \/ failed # {} \/ cur # 0 \/ perr
ExpectedCategory ==
  IF Abnormal THEN "SYSTEM_ERROR"
  ELSE IF announced # {} THEN "FIXED_AT_LEAST_ONE_FILE"
  ELSE IF nfail > 0 THEN "SCAN_TRIGGERED_AT_LEAST_ONCE"
  ELSE "SUCCESS"

Exit(cat, s, code) ==
  /\ pc \in {"init", "files"}
  /\ cat \in Categories /\ s \in Schemes
  /\ pc = "files" => s = scheme
  /\ code = ExitTable(s, cat)
  /\ Abnormal => cat = "SYSTEM_ERROR"
  /\ (pc = "files" /\ visited # {}) => cat = ExpectedCategory
  /\ temps = {}                                                 \* no temporary file outlives the run
  /\ pc' = "exited" /\ exitCat' = cat /\ exitCode' = code
  /\ UNCHANGED <<runV, fileV, setV, nfail, fatal, temps>>

(* the argument parser itself terminates the process (usage error: 2, --help: 0) *)
ArgparseExit(code) ==
  /\ pc = "init" /\ code \in {0, 2}
  /\ pc' = "exited" /\ exitCode' = code
  /\ exitCat' = IF code = 2 THEN "COMMAND_LINE_ERROR" ELSE "SUCCESS"
  /\ UNCHANGED <<runV, fileV, setV, nfail, fatal, temps>>

(* after the run the harness compares every file with its content before the run:
   S = files whose bytes differ, T = number of files that appeared and were not removed *)
ObservedDisk(S, T) ==
  /\ pc = "exited"
  /\ announced \subseteq S                       \* announced => changed
  /\ ~Abnormal => S = announced                  \* changed => announced (a run that completed normally)
  /\ S \subseteq changed                         \* bytes change only through an observed write-back
  /\ mode # "fix" => S = {}                      \* scan, scan-stdin and listing are read-only
  /\ T = 0                                       \* nothing is created or left behind
  /\ UNCHANGED vars

(* ------------------------------- invariants ------------------------------------------ *)
TypeOK ==
  /\ pc \in {"init", "files", "exited"} /\ mode \in Modes /\ scheme \in Schemes
  /\ announced \subseteq visited /\ changed \subseteq visited /\ failed \subseteq visited

ChangedIffAnnounced == pc = "exited" /\ ~Abnormal => changed = announced
AnnouncedOnlyIfChanged == announced \subseteq changed
ScanReadOnly == mode # "fix" => changed = {} /\ temps = {}
ErrorNeverMasked == pc = "exited" /\ Abnormal => exitCat = "SYSTEM_ERROR" /\ exitCode = 1
FixedCodeIffAnnounced ==
  pc = "exited" /\ mode = "fix" /\ ~Abnormal /\ visited # {}
     => ((exitCat = "FIXED_AT_LEAST_ONE_FILE") <=> (announced # {}))
ExitFollowsTable == pc = "exited" => \E s \in Schemes : exitCode = ExitTable(s, exitCat) /\ (mode # "other" => s = scheme)
NoTempAtExit == pc = "exited" => temps = {}
=============================================================================
