------------------------------- MODULE Config -------------------------------
(* Which value a rule's `enabled` flag and a rule's configuration item take, given what each
   configuration layer says (newdocs/src/advanced_configuration.md; property C17).

   Layers, most specific first:
     command line -d / -e   (a rule named by both is disabled)
     --set
     --config <file>        (JSON, YAML or TOML)
     default file           (.pymarkdown as JSON, else .pymarkdown.yaml, else .pymarkdown.yml)
     project file           (pyproject.toml, table tool.pymarkdown)
     the rule's own default
   A layer value is "unset", or a value.  A rule is addressed by its id or by one of its names,
   with the same effect. *)
EXTENDS Naturals, Sequences

FileLayers == <<"set", "config", "deffile", "pyproject">>       \* most specific first

RECURSIVE FirstSet(_, _)
FirstSet(vals, i) ==        \* vals: function FileLayers-index -> value; first value that is not "unset", or "unset"
  IF i > Len(FileLayers) THEN "unset"
  ELSE IF vals[i] # "unset" THEN vals[i] ELSE FirstSet(vals, i + 1)

(* enabled flag: vals[i] \in {"unset", "true", "false"}; d, e: named in -d / -e *)
Enabled(default, d, e, vals) ==
  IF d THEN FALSE
  ELSE IF e THEN TRUE
  ELSE LET v == FirstSet(vals, 1) IN IF v = "unset" THEN default ELSE v = "true"

DecidingLayer(d, e, vals) ==
  IF d THEN "-d" ELSE IF e THEN "-e"
  ELSE IF \E i \in 1..Len(FileLayers) : vals[i] # "unset"
       THEN FileLayers[CHOOSE i \in 1..Len(FileLayers) : vals[i] # "unset" /\ \A j \in 1..(i - 1) : vals[j] = "unset"]
       ELSE "default"

(* configuration item: vals[i] \in {"unset"} \cup Values; the most specific layer that mentions the item
   decides; if its value is not acceptable for the item the rule's default is used, unless strict mode is
   on, in which case the run stops with a configuration error *)
Item(default, vals, Acceptable(_), strict) ==
  LET v == FirstSet(vals, 1) IN
  IF v = "unset" THEN default
  ELSE IF Acceptable(v) THEN v
  ELSE IF strict THEN "CONFIG-ERROR" ELSE default

(* ---- properties of the resolution itself --------------------------------------------------- *)
MostSpecificWins(default, d, e, vals) ==
  /\ d => ~Enabled(default, d, e, vals)
  /\ (~d /\ e) => Enabled(default, d, e, vals)
  /\ \A i \in 1..Len(FileLayers) :
        (~d /\ ~e /\ vals[i] # "unset" /\ \A j \in 1..(i - 1) : vals[j] = "unset")
            => (Enabled(default, d, e, vals) <=> vals[i] = "true")
  /\ (~d /\ ~e /\ \A i \in 1..Len(FileLayers) : vals[i] = "unset") => (Enabled(default, d, e, vals) <=> default)
=============================================================================
