------------------------------ MODULE FixSched ------------------------------
(* The level loop of fix mode (property C09; docs/developer.md "Fix Conflict Checks").

   Every fix-capable rule has a fix level.  A file is fixed in passes of strictly increasing
   level: the pass of level L lets the rules of level L fix, while the rules of higher levels only
   report ("collect") whether they would trigger on the result; the next pass is the lowest level
   among the triggered collectors; the loop ends when no collector triggers.

   Design theorem (checked by TLC in MC_FixSched for all small instances): one run leaves nothing
   fixable behind for every document IFF fixing a rule can only make rules of a STRICTLY HIGHER
   level trigger (relation Dirties).  A same-level or lower-level edge is exactly a non-converging
   schedule -- which is how observed non-convergence is explained as a pair of rules. *)
EXTENDS Integers, FiniteSets

CONSTANTS Rules, Level      \* Level: [Rules -> Nat]

VARIABLES trig,     \* rules whose condition currently holds in the document
          level,    \* level of the pass being run / last run, -1 before the first
          state     \* "idle" | "pass" | "done"
fvars == <<trig, level, state>>

Levels == {Level[r] : r \in Rules}
MinLevel(S) == CHOOSE l \in {Level[r] : r \in S} : \A m \in {Level[r] : r \in S} : l <= m

FInit(T0) == trig = T0 /\ level = -1 /\ state = "idle"

(* the first pass is the lowest level of all fix-capable rules, whatever triggers *)
FirstPass ==
  /\ state = "idle" /\ level = -1 /\ Rules # {}
  /\ level' = MinLevel(Rules) /\ state' = "pass" /\ UNCHANGED trig

FixList == {r \in Rules : Level[r] = level}
CollectList == {r \in Rules : Level[r] > level}

(* the rules of this level fix what they trigger on; Dirty: what their fixes newly trigger *)
RunPass(Dirty) ==
  /\ state = "pass"
  /\ LET fixed == trig \cap FixList
         after == (trig \ fixed) \cup Dirty
         coll == after \cap CollectList IN
       /\ trig' = after
       /\ IF coll = {} THEN state' = "done" /\ level' = level
          ELSE state' = "pass" /\ level' = MinLevel(coll)

(* one run left nothing fixable behind *)
Converged == state = "done" => trig = {}
LevelsIncrease == [][level' >= level]_fvars
=============================================================================
