------------------------------- MODULE Report -------------------------------
(* What the engine may print for one scanned file (property C07): every failure names an existing
   line and a column inside it (or one past its end), failures come out sorted by line, then
   column, then rule id, none is printed twice, and no plugin error occurs.

   lens[k] is the length of line k in characters, vlens[k] its length with tabs expanded
   (positions after a tab are reported in visual columns); the empty line after a final
   newline is a line of the file. *)
EXTENDS Integers, Sequences, FiniteSets

VARIABLES lens, vlens, last, seen, state      \* state: "idle" | "open" | "closed"
rvars == <<lens, vlens, last, seen, state>>

RInit == lens = <<>> /\ vlens = <<>> /\ last = <<0, 0, 0>> /\ seen = {} /\ state = "idle"

Begin(ls, vs) ==
  /\ state = "idle" /\ Len(ls) = Len(vs)
  /\ lens' = ls /\ vlens' = vs /\ last' = <<0, 0, 0>> /\ seen' = {} /\ state' = "open"

Max(a, b) == IF a > b THEN a ELSE b
InRange(line, col) ==
  /\ line >= 1 /\ line <= Len(lens)
  /\ col >= 1 /\ col <= Max(lens[line], vlens[line]) + 1

(* tuples are compared like the implementation sorts them: line, then column, then rule id
   (rule ids are compared by their number, passed as an integer key) *)
Leq(a, b) == \/ a[1] < b[1]
             \/ a[1] = b[1] /\ a[2] < b[2]
             \/ a[1] = b[1] /\ a[2] = b[2] /\ a[3] <= b[3]

Failure(line, col, ruleKey, rule, msg) ==
  /\ state = "open"
  /\ InRange(line, col)
  /\ Leq(<<last[1], last[2], last[3]>>, <<line, col, ruleKey>>)          \* ordered
  /\ <<line, col, rule, msg>> \notin seen                                 \* printed once
  /\ last' = <<line, col, ruleKey>> /\ seen' = seen \cup {<<line, col, rule, msg>>}
  /\ UNCHANGED <<lens, vlens, state>>

End(ok) ==
  /\ state = "open" /\ ok                                                 \* no plugin error, normal end
  /\ state' = "idle" /\ UNCHANGED <<lens, vlens, last, seen>>
=============================================================================
