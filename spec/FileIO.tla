-------------------------------- MODULE FileIO --------------------------------
(* Write-back of a fixed document to its target file at system-call grain, with a crash (SIGKILL of the process)
   possible in every state (property C15: "nothing damaged").

   The target's content is abstracted to [stage, part]: stage s = the complete result of s fix passes (0 = the original,
   npasses = the fully fixed text), part = "full" | "empty" | "partial" (a proper prefix of stage s).

   Two procedures are modelled; `proc` is fixed per behaviour and taken from the constant set Procs:
     "trunc"   what the pinned implementation does (shutil.copyfile semantics, once per fix level that changed the file):
               OpenTrunc (open(target, O_WRONLY|O_TRUNC): the old content is gone) ; WriteChunk(last)* ; Close
     "rename"  replace by rename: CreateTemp ; WriteTemp(last)* ; Rename(temp -> target)
   AtomicTarget (in every state, hence after a crash, the target holds a complete text) holds for "rename" and is
   violated for "trunc" -- TLC's counterexample OpenTrunc ; Crash is the recorded known finding.  AllOrNothing (original
   or fully fixed) is violated by both as soon as there is more than one write-back.
   Trace_FileIO validates the system calls recorded from real fix runs against these actions (proc is an unlogged
   variable) and compares the target the model predicts at each kill point with the file found on disk. *)
EXTENDS Integers

CONSTANTS Procs,       \* subset of {"trunc", "rename"}
          MaxPasses,   \* bound on the number of write-backs (model checking only)
          MaxChunks    \* bound on write calls per write-back (model checking only)

VARIABLES proc, npasses,
          target,      \* [stage, part]
          pass,        \* write-backs completed
          pc,          \* "idle" | "writing" | "tmp" | "tmpfull" | "done"
          written,     \* write calls in the current write-back
          crashed
vars == <<proc, npasses, target, pass, pc, written, crashed>>

Full(s) == [stage |-> s, part |-> "full"]
InitWith(p, n) == proc = p /\ npasses = n /\ target = Full(0) /\ pass = 0 /\ pc = "idle" /\ written = 0 /\ crashed = FALSE
Init == \E p \in Procs, n \in 1..MaxPasses : InitWith(p, n)

(* ---- the pinned procedure ---- *)
OpenTrunc ==
  /\ proc = "trunc" /\ ~crashed /\ pc = "idle" /\ pass < npasses
  /\ target' = [stage |-> pass + 1, part |-> "empty"] /\ pc' = "writing" /\ written' = 0
  /\ UNCHANGED <<proc, npasses, pass, crashed>>
WriteChunk(last) ==
  /\ proc = "trunc" /\ ~crashed /\ pc = "writing" /\ target.part # "full"
  /\ written' = written + 1
  /\ target' = [stage |-> pass + 1, part |-> IF last THEN "full" ELSE "partial"]
  /\ UNCHANGED <<proc, npasses, pass, pc, crashed>>
Close ==
  /\ proc = "trunc" /\ ~crashed /\ pc = "writing" /\ target.part = "full"
  /\ pc' = "idle" /\ pass' = pass + 1 /\ UNCHANGED <<proc, npasses, target, written, crashed>>

(* ---- replace by rename ---- *)
CreateTemp == /\ proc = "rename" /\ ~crashed /\ pc = "idle" /\ pass < npasses /\ pc' = "tmp" /\ written' = 0
              /\ UNCHANGED <<proc, npasses, target, pass, crashed>>
WriteTemp(last) == /\ proc = "rename" /\ ~crashed /\ pc = "tmp" /\ written' = written + 1 /\ pc' = IF last THEN "tmpfull" ELSE "tmp"
                   /\ UNCHANGED <<proc, npasses, target, pass, crashed>>
Rename == /\ proc = "rename" /\ ~crashed /\ pc = "tmpfull"
          /\ target' = Full(pass + 1) /\ pass' = pass + 1 /\ pc' = "idle" /\ UNCHANGED <<proc, npasses, written, crashed>>

Finish == ~crashed /\ pc = "idle" /\ pass = npasses /\ pc' = "done" /\ UNCHANGED <<proc, npasses, target, pass, written, crashed>>
Crash == ~crashed /\ pc # "done" /\ crashed' = TRUE /\ UNCHANGED <<proc, npasses, target, pass, pc, written>>

Next == \/ OpenTrunc \/ Close \/ CreateTemp \/ Rename \/ Finish \/ Crash
        \/ \E last \in BOOLEAN : written < MaxChunks /\ (WriteChunk(last \/ written + 1 = MaxChunks) \/ WriteTemp(last \/ written + 1 = MaxChunks))
Spec == Init /\ [][Next]_vars

TypeOK == /\ target.stage \in 0..npasses /\ target.part \in {"full", "empty", "partial"}
          /\ pass \in 0..npasses /\ pc \in {"idle", "writing", "tmp", "tmpfull", "done"}
AtomicTarget == target.part = "full"                                         \* in every state, so also after a crash
AllOrNothing == target.part = "full" /\ target.stage \in {0, npasses}
Completes == pc = "done" => target = Full(npasses)
=============================================================================
