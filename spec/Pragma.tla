------------------------------- MODULE Pragma -------------------------------
(* What a pragma line does (newdocs/src/extensions/pragmas.md; property C11).

   Let F be the failures of document d (records with a line and a rule id) and d+ the document
   with one pragma line inserted so that it becomes line k.  A pragma line is invisible to the
   parser, so every failure of d re-appears in d+, moved down by one line if it was at or below
   the insertion point; then
     disable-next-line ids      removes the failures of exactly those rules on line k+1,
     disable-num-lines N ids    removes them on lines k+1 .. k+N   (N a positive integer),
   and nothing else changes.  A malformed pragma (no command, unknown command, no or unknown
   rule identifier, N not a positive integer) removes nothing and is reported on line k.
   Failures reported ON line k itself (rules that look at raw lines see the pragma text) are
   outside the relation. *)
EXTENDS Integers, FiniteSets, Sequences

Shift(F, k) == {[f EXCEPT !.line = IF f.line >= k THEN f.line + 1 ELSE f.line] : f \in F}

(* cmd = [kind |-> "next" | "num" | "bad", n |-> Nat, ids |-> set of canonical rule ids] *)
Covered(cmd, k) ==
  CASE cmd.kind = "next" -> {k + 1}
    [] cmd.kind = "num" -> (k + 1)..(k + cmd.n)
    [] OTHER -> {}

Expected(F, k, cmd) == {f \in Shift(F, k) : ~(f.line \in Covered(cmd, k) /\ f.rule \in cmd.ids)}
ErrorExpected(cmd) == cmd.kind = "bad"

(* several pragma lines: ps is a sequence of [k, cmd] with the final line numbers k strictly increasing *)
RECURSIVE ShiftAll(_, _, _)
ShiftAll(F, ps, i) == IF i > Len(ps) THEN F ELSE ShiftAll(Shift(F, ps[i].k), ps, i + 1)
Suppressed(f, ps) == \E i \in 1..Len(ps) : f.line \in Covered(ps[i].cmd, ps[i].k) /\ f.rule \in ps[i].cmd.ids
ExpectedMulti(F, ps) == {f \in ShiftAll(F, ps, 1) : ~Suppressed(f, ps)}
PragmaLines(ps) == {ps[i].k : i \in 1..Len(ps)}
ErrorLines(ps) == {ps[i].k : i \in {j \in 1..Len(ps) : ErrorExpected(ps[j].cmd)}}

(* ---- properties of the relation itself (checked by TLC in MC_Pragma) ----------------------- *)
OnlyNamedRulesOnCoveredLines(F, k, cmd) ==
  \A f \in Shift(F, k) : f \notin Expected(F, k, cmd) => (f.rule \in cmd.ids /\ f.line \in Covered(cmd, k))
BadSuppressesNothing(F, k, cmd) == cmd.kind = "bad" => Expected(F, k, cmd) = Shift(F, k)
SingleIsMulti(F, k, cmd) == Expected(F, k, cmd) = ExpectedMulti(F, <<[k |-> k, cmd |-> cmd]>>)
NumOneIsNext(F, k, ids) == Expected(F, k, [kind |-> "num", n |-> 1, ids |-> ids]) = Expected(F, k, [kind |-> "next", n |-> 0, ids |-> ids])
=============================================================================
