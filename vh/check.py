"""Entry point: python -m vh.check <ID> --tier quick|thorough  |  --replay <path>"""
import argparse
import importlib
import json
import os
import sys

from .ctx import main_wrapper


def main():
    ap = argparse.ArgumentParser()
    ap.add_argument("pid")
    ap.add_argument("--tier", default=os.environ.get("VERIF_TIER", "quick"), choices=["quick", "thorough"])
    ap.add_argument("--replay")
    a = ap.parse_args()
    mod = importlib.import_module("vh.checks.%s" % a.pid.lower())
    if a.replay:
        with open(a.replay, encoding="utf-8") as f:
            payload = json.load(f)
        sys.exit(mod.replay(payload))
    sys.exit(main_wrapper(mod.run, a.pid, a.tier))


if __name__ == "__main__":
    main()
