"""Evidence files (evidence/<id>.json) and replay files, written by every run."""
import json
import os
import time

VERIF = os.path.dirname(os.path.dirname(os.path.abspath(__file__)))
EVID = os.environ.get("VERIF_EVIDENCE", os.path.join(VERIF, "evidence"))      # VERIF_EVIDENCE: runs against a patched worktree write elsewhere
LEVELS = ("exploration", "fault_enumeration", "model_checking", "proof", "translation_validation", "other")


def seed():
    try:
        return int(os.environ.get("VERIF_SEED", "0"))
    except ValueError:
        return 0


def _jsonable(x):
    if isinstance(x, (str, int, float, bool)) or x is None:
        return x
    if isinstance(x, dict):
        return {str(k): _jsonable(v) for k, v in x.items()}
    if isinstance(x, (list, tuple, set, frozenset)):
        return [_jsonable(v) for v in x]
    return repr(x)


class Evidence:
    def __init__(self, pid, tier, level="model_checking"):
        assert level in LEVELS
        self.pid, self.tier, self.level = pid, tier, level
        self.t0 = time.time()
        self.cov = {"states": 0, "transitions": 0, "traces_validated_against_impl": 0, "samples": [],
                    "evaluations": 0, "distinct_nontrivial": 0, "rule": ""}
        self.assumptions = []
        self.violations = 0
        self.known = []
        self.parts = {}

    def add_tlc(self, name, res):
        """Accumulate a TLC run's own statistics."""
        self.cov["states"] += res.distinct
        self.cov["transitions"] += res.generated
        self.parts.setdefault("tlc_runs", []).append(
            {"name": name, "distinct_states": res.distinct, "states_generated": res.generated,
             "depth": res.depth, "wall_s": round(res.wall, 2), "result": "ok" if res.ok else str(res.violated)})

    def sample(self, x, limit=6):
        if len(self.cov["samples"]) < limit:
            self.cov["samples"].append(_jsonable(x))

    def write(self):
        os.makedirs(EVID, exist_ok=True)
        cov = dict(self.cov)
        cov.update(self.parts)
        if not cov["samples"]:
            cov["samples"] = ["(no case was explored)"]
        doc = {"property_id": self.pid, "tier": self.tier, "seed": seed(), "level": self.level,
               "coverage": _jsonable(cov), "assumptions": self.assumptions,
               "wall_s": round(time.time() - self.t0, 2), "violations": self.violations,
               "known_findings_hit": _jsonable(self.known)}
        path = os.path.join(EVID, self.pid + ".json")
        tmp = path + ".tmp"
        with open(tmp, "w", encoding="utf-8") as f:
            json.dump(doc, f, indent=1, ensure_ascii=True)
        os.replace(tmp, path)
        return path


def write_replay(pid, n, payload):
    d = os.path.join(EVID, "replays")
    os.makedirs(d, exist_ok=True)
    path = os.path.join(d, "%s-%s.json" % (pid, n))
    with open(path, "w", encoding="utf-8") as f:
        json.dump(_jsonable(payload), f, indent=1)
    return path
