"""One document through the real parser and both generators; everything the document-layer checks need."""
import io

from . import canon, impl


def cls(t):
    return "container" if t.is_container else ("leaf" if t.is_leaf else "inline")


def token_events(tokens, text):
    """events for Trace_MdTokens (nesting + positions)"""
    lines = text.split("\n")
    nl = len(lines)
    ids = {id(t): i + 1 for i, t in enumerate(tokens)}
    evs = []
    for i, t in enumerate(tokens):
        name = t.token_name
        if t.is_end_of_stream or t.is_pragma:
            continue
        c = cls(t)
        e = {"n": name, "c": c, "s": i + 1, "blk": c != "inline", "pos": False,
             "line": 0, "col": 0, "nlines": nl, "len": 0, "vlen": 0, "chr": "", "chv": "", "facts": []}
        if t.is_end_token:
            e["k"] = "close"
            e["n"] = name[4:] if name.startswith("end-") else name
            e["s"] = ids.get(id(t.start_markdown_token), 0)
            e["blk"] = False
            if name == "end-emphasis" and t.line_number:
                # the closing delimiter run has its own position
                _pos(e, "end-emphasis", t, lines)
        else:
            e["k"] = "open" if (t.requires_end_token and name != "li") else "atom"
            if t.line_number:
                _pos(e, name, t, lines)
        evs.append(e)
    return evs


def _pos(e, kind, t, lines):
    ln, col = t.line_number, t.column_number
    e["pos"] = True
    e["line"], e["col"] = ln, col
    if kind == "end-emphasis":
        e["n_pos"] = kind
    if 1 <= ln <= len(lines):
        raw = lines[ln - 1]
        vis = raw.expandtabs(4)
        e["len"], e["vlen"] = len(raw), len(vis)
        e["chr"] = raw[col - 1] if 1 <= col <= len(raw) else ""
        e["chv"] = vis[col - 1] if 1 <= col <= len(vis) else ""
        facts = []
        rest_r, rest_v = raw[col - 1:] if col >= 1 else raw, vis[col - 1:] if col >= 1 else vis
        if not rest_r.strip(" \t") or not rest_v.strip(" \t"):
            facts.append("blank-rest")
        if col >= 5 and not vis[col - 5:col - 1].strip(" ") or (col - 1 <= len(raw) and "\t" in raw[:max(col - 1, 0)] and not raw[:col - 1].replace(">", "").strip(" \t")):
            facts.append("indent-before")
        if rest_r.lstrip(" \t").startswith("<") or rest_v.lstrip(" \t").startswith("<"):
            facts.append("lt-after-ws")
        if (e["chr"] and e["chr"] not in " \t") or (e["chv"] and e["chv"] not in " \t"):
            facts.append("nonblank")
        e["facts"] = facts


def analyse(text, want=("rt", "html", "events"), timeout=3):
    """parse + regenerate + render. Returns dict with 'exc' (signature tuple) or the requested artefacts."""
    r = impl.parse(text, timeout=timeout)
    if isinstance(r, tuple) and r and r[0] == "EXC":
        return {"exc": r[1:]}
    out = {"exc": None, "ntokens": len(r)}
    if "rt" in want:
        try:
            out["rt"] = impl.to_markdown(r)
        except Exception as ex:  # pylint: disable=broad-except
            out["rt_exc"] = "%s: %s" % (type(ex).__name__, str(ex)[:80])
    if "html" in want:
        try:
            h = impl.to_html(r)
            out["html"] = h
        except Exception as ex:  # pylint: disable=broad-except
            out["html_exc"] = "%s: %s" % (type(ex).__name__, str(ex)[:80])       # the implementation's HTML generator raised
        else:
            try:
                out["tree"] = canon.freeze(canon.from_html(h))
            except Exception as ex:  # pylint: disable=broad-except
                out["proj_exc"] = "%s: %s" % (type(ex).__name__, str(ex)[:80])   # the harness could not read the HTML back: no verdict
    if "events" in want:
        out["events"] = token_events(r, text)
    if "tokens" in want:
        out["tokens"] = r
    return out


# ---- line shapes: the vocabulary of signatures ----------------------------------------------------

def shape(line):
    """bucketed description of one source line: indent, container markers with gaps, body kind"""
    i = 0
    n = len(line)

    def ws(k):
        j = k
        while j < n and line[j] in " \t":
            j += 1
        seg = line[k:j]
        if "\t" in seg:
            return j, "T"
        w = len(seg)
        return j, ("0" if w == 0 else "1" if w == 1 else "2-3" if w <= 3 else "4" if w == 4 else "5+")
    i, ind = ws(0)
    parts = ["I" + ind]
    while i < n:
        ch = line[i]
        if ch == ">":
            j, g = ws(i + 1)
            parts.append("BQ.G" + g)
            i = j
            continue
        if ch in "-+*" and (i + 1 == n or line[i + 1] in " \t"):
            rest = line[i:].replace(" ", "").replace("\t", "")
            if len(rest) >= 3 and set(rest) == {ch}:
                break
            j, g = ws(i + 1)
            parts.append("BUL.G" + g)
            i = j
            continue
        k = i
        while k < n and line[k].isdigit():
            k += 1
        if k > i and k < n and line[k] in ".)" and (k + 1 == n or line[k + 1] in " \t") and k - i <= 9:
            j, g = ws(k + 1)
            parts.append("ORD%s.G%s" % (k - i if k - i > 1 else "", g))
            i = j
            continue
        break
    body = line[i:]
    b = body.strip(" \t")
    if not b:
        kind = "BLANK"
    elif b.startswith("#") and (b.lstrip("#") == "" or b.lstrip("#")[0] in " \t") and len(b) - len(b.lstrip("#")) <= 6:
        kind = "ATX"
    elif b.startswith(("```", "~~~")):
        kind = "FENCE"
    elif len(b.replace(" ", "").replace("\t", "")) >= 3 and set(b.replace(" ", "").replace("\t", "")) <= {"-"}:
        kind = "THEM-"
    elif len(b.replace(" ", "").replace("\t", "")) >= 3 and (set(b.replace(" ", "").replace("\t", "")) <= {"*"} or set(b.replace(" ", "").replace("\t", "")) <= {"_"}):
        kind = "THEM"
    elif set(b) <= {"="} or set(b) <= {"-"}:
        kind = "SETEXT"
    elif b.startswith("<"):
        kind = "HTML"
    elif b.startswith("["):
        kind = "LRD"
    else:
        kind = "TEXT"
    parts.append(kind)
    return ".".join(parts)


def doc_shape(text):
    """bucketed line shapes (readable) plus a checksum of the exact text (so that two documents never share a signature)"""
    import zlib
    ls = text.split("\n")
    if ls and ls[-1] == "":
        ls = ls[:-1]
    return "%s #%08x" % (" / ".join(shape(l) for l in ls[:8]) + (" / ..." if len(ls) > 8 else ""), zlib.crc32(text.encode("utf-8")))


def kinds(tree):
    """structure of a canonical tree without text"""
    out = []
    for n in tree:
        if n[0] in ("bq", "li"):
            out.append("%s[%s]" % (n[0], kinds(n[1])))
        elif n[0] == "ul":
            out.append("ul[%s]" % kinds(n[1]))
        elif n[0] == "ol":
            out.append("ol%s[%s]" % (n[1], kinds(n[2])))
        elif n[0] == "h":
            out.append("h%s" % n[1])
        elif n[0] == "code":
            out.append("code")
        else:
            out.append(n[0])
    return " ".join(out)
