"""Canonical block trees from: the TLA+ model dump, markdown-it tokens, pymarkdown HTML."""
import html
import os
import re
import sys
from html.parser import HTMLParser

_VENDOR = os.path.join(os.path.dirname(os.path.dirname(os.path.abspath(__file__))), "vendor")
if _VENDOR not in sys.path:
    sys.path.append(_VENDOR)
from markdown_it import MarkdownIt  # noqa: E402  (vendored markdown-it-py 4.0.0: corroborating oracle, never sole judge)
_md = MarkdownIt('commonmark')

def _s(chars): return ''.join(chars)

def _rawnorm(s):
    """raw text without the line ends around it and without trailing lines of blanks (insignificant in the rendered HTML)"""
    return re.sub(r'(?:\n[ \t]*)+\Z', '', s.strip('\n'))


def _esc(s):
    return html.escape(s, quote=False).replace('"', '&quot;')        # the apostrophe is not escaped by CommonMark renderers


def norm_label(s):
    return ' '.join(s.split()).casefold()


def collect_defs(node, acc=None):
    """link reference definitions of a model tree in document order; the first definition of a label wins"""
    acc = {} if acc is None else acc
    d = node.get('d')
    if isinstance(d, dict):
        for df in d.get('defs', []) or []:
            acc.setdefault(norm_label(_s(df['label'])), (_s(df['dest']), _s(df['title'])))
    for k in node.get('kids', []):
        collect_defs(k, acc)
    return acc


_REF = re.compile(r'\[([^\[\]]+)\](?:\[([^\[\]]*)\])?')


def para_text(lines, defs=None):
    # lines: list of str (already left-stripped by the block phase); inline phase with plain text
    # (+ reference links [label], [label][], [text][label] when the document has definitions)
    links = []
    if defs:
        def sub(m):
            text, second = m.group(1), m.group(2)
            label = text if not second else second
            hit = defs.get(norm_label(label))
            if hit is None:
                return m.group(0)
            links.append((text, hit))
            return '\x01%d\x02' % (len(links) - 1)
        lines = _REF.sub(sub, '\n'.join(lines)).split('\n')
    out = []
    for i, ln in enumerate(lines):
        ln = ln.lstrip(' \t')
        if i == len(lines) - 1:
            out.append(ln.rstrip(' \t'))
        else:
            m = re.search(r'( {2,}|\\)$', ln)
            if m and m.group(1) == '\\':
                out.append(ln[:-1] + '<br />')
            elif m:
                out.append(ln[:m.start()] + '<br />')
            else:
                out.append(ln.rstrip(' '))
    esc = _esc('\n'.join(out).replace('<br />', '\x00')).replace('\x00', '<br />')
    # inline raw HTML (complete simple tags and complete comments) passes through unescaped
    esc = re.sub(r'&lt;(/?[a-zA-Z][a-zA-Z0-9]*)&gt;', r'<\1>', esc)
    esc = re.sub(r'&lt;!--(.*?)--&gt;', r'<!--\1-->', esc, flags=re.S)
    for i, (text, (dest, title)) in enumerate(links):
        esc = esc.replace('\x01%d\x02' % i, '<a href="%s"%s>%s</a>' % (_esc(dest).replace('[', '%5B').replace(']', '%5D'), ' title="%s"' % _esc(title) if title else '', _esc(text)))
    return esc

def from_model(node, tight=False, defs=None):
    t = node['t']
    if t == 'doc':
        defs = collect_defs(node)
        return merge_raw([x for k in node['kids'] for x in from_model(k, False, defs)])
    if t == 'refs':
        return []
    if t == 'bq':
        return [('bq', [x for k in node['kids'] for x in from_model(k, False, defs)])]
    if t == 'list':
        d = node['d']
        tg = d['tight']
        items = [('li', [x for k in it['kids'] for x in from_model(k, tg, defs)]) for it in node['kids']]
        if d['ord']:
            return [('ol', int(_s(d['start'])), items)]
        return [('ul', items)]
    if t == 'para':
        txt = para_text([_s(l) for l in node['txt']], defs)
        return [('t' if tight else 'p', txt)]
    if t == 'heading':
        txt = para_text([_s(l) for l in node['txt']], defs)
        return [('h', node['d']['level'], txt.strip(' \t'))]
    if t == 'hr':
        return [('hr',)]
    if t == 'code':
        lines = [_s(l) for l in node['txt']]
        if node['d']['fenced']:
            info = lines[0].strip(' \t') if lines else ''
            body = lines[1:]
            return [('code', info.split()[0] if info.split() else '', ''.join(l + '\n' for l in body))]
        return [('code', '', ''.join(l + '\n' for l in lines))]
    if t == 'html':
        return [('t', _rawnorm('\n'.join(_s(l) for l in node['txt'])))]
    raise ValueError(t)

def from_mdit(src):
    toks = _md.parse(src)
    stack = [[]]
    meta = []
    for tk in toks:
        ty = tk.type
        if ty in ('blockquote_open', 'bullet_list_open', 'ordered_list_open', 'list_item_open'):
            stack.append([]); meta.append(tk)
        elif ty in ('blockquote_close', 'bullet_list_close', 'ordered_list_close', 'list_item_close'):
            kids = stack.pop(); op = meta.pop()
            if ty == 'blockquote_close': stack[-1].append(('bq', kids))
            elif ty == 'bullet_list_close': stack[-1].append(('ul', kids))
            elif ty == 'ordered_list_close':
                st = op.attrGet('start'); stack[-1].append(('ol', int(st) if st is not None else 1, kids))
            else: stack[-1].append(('li', kids))
        elif ty == 'paragraph_open':
            meta.append(tk)
        elif ty == 'paragraph_close':
            op = meta.pop(); txt = stack[-1].pop()
            stack[-1].append(('t' if op.hidden else 'p', txt))
        elif ty == 'heading_open':
            meta.append(tk)
        elif ty == 'heading_close':
            op = meta.pop(); txt = stack[-1].pop()
            stack[-1].append(('h', int(op.tag[1]), txt))
        elif ty == 'inline':
            stack[-1].append(_md.renderer.renderInline(tk.children, _md.options, {}))
        elif ty == 'fence':
            info = tk.info.strip()
            stack[-1].append(('code', info.split()[0] if info.split() else '', tk.content))
        elif ty == 'code_block':
            stack[-1].append(('code', '', tk.content))
        elif ty == 'hr':
            stack[-1].append(('hr',))
        elif ty == 'html_block':
            stack[-1].append(('t', _rawnorm(tk.content)))
        else:
            raise ValueError(ty)
    assert len(stack) == 1
    return merge_raw(stack[0])

class _HP(HTMLParser):
    BLOCK = {'blockquote', 'ul', 'ol', 'li', 'p', 'pre', 'h1', 'h2', 'h3', 'h4', 'h5', 'h6', 'hr'}
    def __init__(self):
        super().__init__(convert_charrefs=False)
        self.stack = [[]]; self.meta = []; self.textmode = 0; self.buf = []
    def handle_starttag(self, tag, attrs):
        if self.textmode:
            if tag == 'code' and self.meta and self.meta[-1][0] == 'pre' and not self.buf:
                self.meta[-1] = ('pre', dict(attrs)); return
            self.buf.append(self.get_starttag_text()); return
        if tag in ('p', 'pre') or tag[0] == 'h' and len(tag) == 2 and tag != 'hr':
            self.flush_text(); self.meta.append((tag, dict(attrs))); self.textmode = 1; self.buf = []
        elif tag == 'hr':
            self.flush_text(); self.stack[-1].append(('hr',))
        elif tag in ('blockquote', 'ul', 'ol', 'li'):
            self.flush_text(); self.meta.append((tag, dict(attrs))); self.stack.append([])
        else:
            self.buf.append(self.get_starttag_text())
    def handle_startendtag(self, tag, attrs):
        if tag == 'hr' and not self.textmode:
            self.flush_text(); self.stack[-1].append(('hr',))
        else: self.buf.append(self.get_starttag_text())
    def handle_endtag(self, tag):
        if self.textmode:
            top = self.meta[-1][0]
            if tag == top:
                tg, at = self.meta.pop(); txt = ''.join(self.buf); self.buf = []; self.textmode = 0
                if tg == 'p': self.stack[-1].append(('p', txt))
                elif tg == 'pre':
                    cls = at.get('class', '') or ''
                    self.stack[-1].append(('code', cls[len('language-'):] if cls.startswith('language-') else '', html.unescape(txt)))
                else: self.stack[-1].append(('h', int(tg[1]), txt))
            elif tag == 'code' and top == 'pre': pass
            else: self.buf.append('</%s>' % tag)
            return
        if tag in ('blockquote', 'ul', 'ol', 'li'):
            self.flush_text(); kids = self.stack.pop(); tg, at = self.meta.pop()
            if tg == 'blockquote': self.stack[-1].append(('bq', kids))
            elif tg == 'ul': self.stack[-1].append(('ul', kids))
            elif tg == 'ol': self.stack[-1].append(('ol', int(at.get('start', 1)), kids))
            else: self.stack[-1].append(('li', kids))
        else: self.buf.append('</%s>' % tag)
    def handle_data(self, data): self.buf.append(data)
    def flush_raw(self):
        # hand everything still buffered (an unterminated raw construct, script / style content) on as text
        self.clear_cdata_mode(); self.goahead(1)
        if self.rawdata:
            self.handle_data(self.rawdata); self.rawdata = ''
    def textmode_code(self): return bool(self.textmode and self.meta and self.meta[-1][0] == 'pre')     # inside <pre><code>: lines are content
    def handle_comment(self, data): self.buf.append('<!--%s-->' % data)
    def handle_decl(self, decl): self.buf.append('<!%s>' % decl)
    def handle_pi(self, data): self.buf.append('<?%s>' % data)
    def unknown_decl(self, data): self.buf.append('<![%s]]>' % data)                  # marked section (CDATA): verbatim
    def parse_bogus_comment(self, i, report=1):                                        # `<!X ...>`: verbatim, not as a comment
        pos = self.rawdata.find('>', i + 2)
        if pos == -1:
            return -1
        if report:
            self.buf.append(self.rawdata[i:pos + 1])
        return pos + 1
    def handle_entityref(self, name): self.buf.append('&%s;' % name)
    def handle_charref(self, name): self.buf.append('&#%s;' % name)
    def flush_text(self):
        txt = ''.join(self.buf); self.buf = []
        if _rawnorm(txt):
            self.stack[-1].append(('t', _rawnorm(txt)))

_RAW_OPENERS = re.compile(r'<\?|<!\[|<![A-Za-z]|<!--|<(?:script|style|textarea)', re.I)
_STRUCT_LINE = re.compile(r'</?(?:blockquote|ul|ol|li|p|pre|h[1-6]|hr)(?:[ >/]|$)')


def from_html(h):
    p = _HP()
    if _RAW_OPENERS.search(h):
        # raw constructs html.parser would read on to their terminator (processing instruction, declaration, marked section,
        # script / style content): a renderer writes every structural tag at the start of a line, so such a line ends whatever
        # raw construct is still open -- the pending input is flushed as text before the line is fed
        for ln in h.splitlines(keepends=True):
            if _STRUCT_LINE.match(ln) and not p.textmode_code():
                p.flush_raw()
            p.feed(ln)
        p.flush_raw()
    else:
        p.feed(h)
    p.close(); p.flush_text()
    assert len(p.stack) == 1, h
    return p.stack[0]

def merge_raw(nodes):
    """Neighbouring raw pieces (HTML blocks, the text of a tight item's paragraph) become one: rendered HTML cannot tell
    `<!-- c -->` + `<div>` as two HTML blocks from one block of two lines, and the property is stated on the rendered HTML."""
    out = []
    for nd in nodes:
        if nd[0] in ('bq', 'ul', 'li'):
            nd = (nd[0], merge_raw(nd[1]))
        elif nd[0] == 'ol':
            nd = ('ol', nd[1], merge_raw(nd[2]))
        if nd[0] == 't' and out and out[-1][0] == 't':
            out[-1] = ('t', out[-1][1] + '\n' + nd[1])
        else:
            out.append(nd)
    return out


def freeze(x):
    if isinstance(x, (list, tuple)): return tuple(freeze(y) for y in x)
    return x
