"""Deterministic work counter: number of Python function entries (sys.monitoring PY_START) during a call."""
import sys

_TOOL = 3
_state = {"n": 0, "on": False}


def _cb(code, offset):
    _state["n"] += 1


def measure(fn, *args, **kw):
    mon = sys.monitoring
    if not _state["on"]:
        try:
            mon.use_tool_id(_TOOL, "vh-work")
        except ValueError:
            pass
        mon.register_callback(_TOOL, mon.events.PY_START, _cb)
        _state["on"] = True
    _state["n"] = 0
    mon.set_events(_TOOL, mon.events.PY_START)
    try:
        r = fn(*args, **kw)
    finally:
        mon.set_events(_TOOL, 0)
    return _state["n"], r
