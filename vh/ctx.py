"""Per-check context: evidence, violation/known-finding bookkeeping, exit codes."""
import os
import sys
import traceback

from . import evidence, findings
from .tlc import TlcError


class Machinery(Exception):
    """The check itself is broken (exit 2, never a VIOLATION line)."""


class Ctx:
    def __init__(self, pid, tier, level="model_checking"):
        self.pid, self.tier = pid, tier
        self.ev = evidence.Evidence(pid, tier, level)
        self.known_entries = findings.load(pid)
        self.unknown = []      # (signature, payload)
        self.known_hits = {}   # entry id -> [count, first payload]
        self.max_replays = 10

    # -- results -------------------------------------------------------------------------
    def violation(self, signature, payload):
        """Report one violating case. Known signature -> counted under that finding."""
        e = findings.match(self.known_entries, signature)
        if e is not None:
            k = e["id"]
            if k not in self.known_hits:
                self.known_hits[k] = [0, payload, e]
            self.known_hits[k][0] += 1
            return False
        self.unknown.append((signature, payload))
        return True

    def finish(self):
        for k, (n, payload, e) in sorted(self.known_hits.items()):
            print("KNOWN-FINDING: property=%s %s -- %s (%d case(s) this run, e.g. %s)" % (
                self.pid, k, e["what"], n, _short(payload)))
            self.ev.known.append({"id": k, "cases": n})
        rc = 0
        if self.unknown:
            rc = 1
            seen = {}
            for sig, payload in self.unknown:
                seen.setdefault(sig, []).append(payload)
            self.ev.violations = len(self.unknown)
            for i, (sig, payloads) in enumerate(sorted(seen.items())):
                if i >= self.max_replays:
                    break
                path = evidence.write_replay(self.pid, i, {"property": self.pid, "signature": sig,
                                                           "cases": len(payloads), "case": payloads[0]})
                print("VIOLATION property=%s replay=%s" % (self.pid, path))
                print("  signature: %s  (%d case(s)); first: %s" % (sig, len(payloads), _short(payloads[0], 600)))
        self.ev.write()
        return rc


def _short(x, n=200):
    s = repr(x)
    return s if len(s) <= n else s[:n] + "..."


def main_wrapper(fn, pid, tier):
    """Run check function fn(ctx) with total verdicts: 0 held, 1 violation, 2 machinery."""
    try:
        ctx = fn(pid, tier)
        rc = ctx.finish()
    except (TlcError, Machinery) as ex:
        print("MACHINERY-FAILURE property=%s: %s" % (pid, ex), file=sys.stderr)
        traceback.print_exc()
        return 2
    except Exception as ex:  # pylint: disable=broad-except
        print("MACHINERY-FAILURE property=%s: unexpected %s: %s" % (pid, type(ex).__name__, ex), file=sys.stderr)
        traceback.print_exc()
        return 2
    return rc
