"""Facts about a document for spec/Rules.tla, computed WITHOUT the implementation under test: line facts from the text,
block facts from the vendored markdown-it-py (token.map gives the line range of every block)."""
import re

from . import canon

_md = canon._md


def facts(text):
    """(L, B, I): line facts, block facts, inline facts"""
    lines = text.split("\n")
    toks = _md.parse(text)
    n = len(lines)
    code = [""] * (n + 2)
    html = [False] * (n + 2)
    heading = [False] * (n + 2)
    setext = [False] * (n + 2)
    fenceline = [False] * (n + 2)
    inlist = [False] * (n + 2)
    B = []
    I = []
    depth = 0
    plain = [False] * (n + 2)
    para = [False] * (n + 2)
    pdepth = [0] * (n + 2)
    pmarkup = [False] * (n + 2)
    cstack = []                      # open containers: [kind, block record or None]
    for ti, t in enumerate(toks):
        if t.type.endswith("_open") and t.type in ("blockquote_open", "bullet_list_open", "ordered_list_open", "list_item_open"):
            depth += 1
            if t.type != "list_item_open" and t.map:
                k = {"blockquote_open": "bq", "bullet_list_open": "ul", "ordered_list_open": "ol"}[t.type]
                for c in cstack:
                    if c[1] is not None:
                        c[1]["nested"] = True
                rec = _b(k, t.map, marker=t.markup or "", depth=depth)
                B.append(rec)
                cstack.append([k, rec, 0])
                if k != "bq":
                    for i in range(t.map[0], min(t.map[1] + 1, n)):
                        inlist[i + 1] = True
            elif t.type == "list_item_open":
                owner = cstack[-1] if cstack else None
                cstack.append(["li", None, 0])
                if owner is not None and owner[0] == "ul" and t.map:
                    owner[2] += 1
                    uls = [c for c in cstack if c[0] == "ul"]
                    B.append(_b("li", t.map, marker=t.markup or "", level=len(uls), first=owner[2] == 1,
                                mixed=any(c[0] in ("ol", "bq") for c in cstack), depth=depth))
        elif t.type.endswith("_close") and t.type in ("blockquote_close", "bullet_list_close", "ordered_list_close", "list_item_close"):
            depth -= 1
            if cstack:
                cstack.pop()
        elif t.type == "heading_open" and t.map:
            s, e = t.map
            raw = lines[s]
            style = "setext" if t.markup in ("=", "-") else "atx"
            for i in range(s, e):
                if style == "atx":
                    heading[i + 1] = True
                else:
                    setext[i + 1] = True
            body = _strip_containers(raw)
            if depth > 0:
                body = body.lstrip(" ")
            ind = max(len(_strip_containers(lines[i])) - len(_strip_containers(lines[i]).lstrip(" ")) for i in range(s, e)) if e > s else 0
            gap = 0
            if style == "atx":
                m = re.match(r"^\s*#{1,6}([ \t]*)", body)
                gap = len(m.group(1)) if m else 0
                if re.search(r"[ \t]#+[ \t]*$", body) and body.strip().strip("#").strip():
                    style = "atx_closed"
                elif m and "\t" in m.group(1):
                    style = "atx_tab"
                if body.strip("# \t") == "":
                    gap = min(gap, 1)
            inl = toks[ti + 1] if ti + 1 < len(toks) and toks[ti + 1].type == "inline" else None
            content = (inl.content if inl is not None else "").strip()
            markup = bool(inl is not None and any(c.type not in ("text", "softbreak") for c in (inl.children or []))) or "  " in content or "\t" in content
            B.append(_b("h", t.map, level=int(t.tag[1]), style=style, indent=ind, gap=gap, depth=depth,
                        text=" ".join(content.split()), lastch=content[-1:] if content else "", markup=markup))
            if depth == 0:
                for i in range(s, e):
                    plain[i + 1] = True
        elif t.type == "fence" and t.map:
            s, e = t.map
            for i in range(s, e):
                code[i + 1] = "fenced"
            fenceline[s + 1] = True
            if e - 1 > s and re.match(r"^[ >\t]*(```+|~~~+)\s*$", lines[e - 1] if e - 1 < n else ""):
                fenceline[e] = True
            B.append(_b("fence", t.map, style=t.markup[:1], info=t.info.strip(), depth=depth, closed=bool(fenceline[e]) and e - 1 > s))
        elif t.type == "code_block" and t.map:
            s, e = t.map
            for i in range(s, e):
                code[i + 1] = "indented"
            B.append(_b("icode", t.map, depth=depth))
        elif t.type == "hr" and t.map:
            B.append(_b("hr", t.map, style=_strip_containers(lines[t.map[0]]).strip(), depth=depth))
        elif t.type == "html_block" and t.map:
            s, e = t.map
            for i in range(s, e):
                html[i + 1] = True
            B.append(_b("html", t.map, depth=depth))
        elif t.type == "paragraph_open" and t.map:
            B.append(_b("p", t.map, depth=depth))
            inl = toks[ti + 1] if ti + 1 < len(toks) and toks[ti + 1].type == "inline" else None
            mk = bool(inl is not None and any(c.type not in ("text", "softbreak") for c in (inl.children or [])))
            for i in range(t.map[0], t.map[1]):
                para[i + 1] = True
                pdepth[i + 1] = depth
                pmarkup[i + 1] = mk or (depth > 0 and i > t.map[0])      # continuation lines inside containers: indentation is relative
            if depth == 0:
                for i in range(t.map[0], t.map[1]):
                    plain[i + 1] = True
        if t.type == "inline" and t.map:
            ln = t.map[0] + 1
            first_i = len(I)
            for c in t.children or []:
                if c.type in ("softbreak", "hardbreak"):
                    ln += 1
                elif c.type == "link_open":
                    I.append({"k": "link", "ln": ln, "href": (c.attrGet("href") or "").strip(), "alt": "", "sure": True, "lo": t.map[0] + 1, "hi": t.map[1]})
                elif c.type == "image":
                    I.append({"k": "image", "ln": ln, "href": (c.attrGet("src") or "").strip(), "alt": (c.content or "").strip(), "sure": True, "lo": t.map[0] + 1, "hi": t.map[1]})
                    ln += (c.content or "").count("\n")
                elif c.type in ("text", "code_inline", "html_inline"):
                    ln += (c.content or "").count("\n")
            if ln != t.map[0] + 1 + (t.content or "").count("\n"):
                for rec in I[first_i:]:                # line breaks inside code spans / destinations / titles: the count is unreliable
                    rec["sure"] = False
    L = []
    for i, l in enumerate(lines, 1):
        trail = len(l) - len(l.rstrip(" "))
        body = _strip_containers(l) if para[i] and pdepth[i] > 0 else l
        unsure18 = para[i] and pdepth[i] > 0 and body == l          # inside a container but the markers are on an earlier line
        m18 = re.match(r"^ {0,3}(#+)(.?)", body)
        hashes = len(m18.group(1)) if m18 else 0
        nxt = m18.group(2) if m18 else ""
        afterhash = "" if not m18 or nxt == "" else "space" if nxt == " " else "tab" if nxt == "\t" else "other"
        L.append({"len": len(l), "trail": trail, "tabs": l.count("\t"), "blank": not l.strip(" \t"),
                  "cblank": bool(l.strip(" \t")) and not l.replace(">", "").strip(" \t"),
                  "code": code[i], "html": html[i], "heading": heading[i], "setext": setext[i], "fenceline": fenceline[i], "inlist": inlist[i], "plain": plain[i],
                  "para": para[i], "pmarkup": pmarkup[i] or unsure18, "hashes": hashes, "afterhash": afterhash, "endshash": l.rstrip(" \t").endswith("#") and hashes < len(l.strip(" \t")),
                  "ws": [k + 1 for k, ch in enumerate(l) if ch in " \t"]})
    for b in B:
        if b["k"] in ("ul", "ol", "bq", "li"):
            while b["endln"] > b["ln"] and b["endln"] <= n and not lines[b["endln"] - 1].replace(">", "").strip(" \t"):
                b["endln"] -= 1
    B.sort(key=lambda b: (b["ln"], -b["endln"]))
    return L, B, I


def _b(k, mp, **kw):
    d = {"k": k, "ln": mp[0] + 1, "endln": mp[1], "level": 0, "style": "", "info": "", "marker": "", "depth": 0, "indent": 0, "gap": 0, "text": "", "lastch": "", "markup": False,
         "closed": False, "nested": False, "first": False, "mixed": False}
    d.update(kw)
    return d


def _strip_containers(line):
    """remove the container prefixes (block quote markers, list markers, the indentation in front of them) of a line that is
    known to start a leaf block"""
    s = line
    while True:
        m = re.match(r"^[ \t]*(>[ ]?|[-+*][ \t]+|\d{1,9}[.)][ \t]+)", s)
        if not m:
            return s
        s = s[m.end():]
