"""Facts about a document for spec/Rules.tla, computed WITHOUT the implementation under test: line facts from the text,
block facts from the vendored markdown-it-py (token.map gives the line range of every block)."""
import re

from . import canon

_md = canon._md


def facts(text):
    lines = text.split("\n")
    toks = _md.parse(text)
    n = len(lines)
    code = [""] * (n + 2)
    html = [False] * (n + 2)
    heading = [False] * (n + 2)
    setext = [False] * (n + 2)
    fenceline = [False] * (n + 2)
    inlist = [False] * (n + 2)
    B = []
    depth = 0
    plain = [False] * (n + 2)
    for ti, t in enumerate(toks):
        if t.type.endswith("_open") and t.type in ("blockquote_open", "bullet_list_open", "ordered_list_open", "list_item_open"):
            depth += 1
            if t.type != "list_item_open" and t.map:
                k = {"blockquote_open": "bq", "bullet_list_open": "ul", "ordered_list_open": "ol"}[t.type]
                B.append(_b(k, t.map, marker=t.markup or "", depth=depth))
                if k != "bq":
                    for i in range(t.map[0], min(t.map[1] + 1, n)):
                        inlist[i + 1] = True
        elif t.type.endswith("_close") and t.type in ("blockquote_close", "bullet_list_close", "ordered_list_close", "list_item_close"):
            depth -= 1
        elif t.type == "heading_open" and t.map:
            s, e = t.map
            raw = lines[s]
            style = "setext" if t.markup in ("=", "-") else "atx"
            for i in range(s, e):
                if style == "atx":
                    heading[i + 1] = True
                else:
                    setext[i + 1] = True
            body = _strip_containers(raw)
            ind = max(len(_strip_containers(lines[i])) - len(_strip_containers(lines[i]).lstrip(" ")) for i in range(s, e)) if e > s else 0
            gap = 0
            if style == "atx":
                m = re.match(r"^\s*#{1,6}([ \t]*)", body)
                gap = len(m.group(1)) if m else 0
                if re.search(r"[ \t]#+[ \t]*$", body) and body.strip().strip("#").strip():
                    style = "atx_closed"
                elif m and "\t" in m.group(1):
                    style = "atx_tab"
                if body.strip("# \t") == "":
                    gap = min(gap, 1)
            inl = toks[ti + 1] if ti + 1 < len(toks) and toks[ti + 1].type == "inline" else None
            content = (inl.content if inl is not None else "").strip()
            markup = bool(inl is not None and any(c.type not in ("text", "softbreak") for c in (inl.children or []))) or "  " in content or "\t" in content
            B.append(_b("h", t.map, level=int(t.tag[1]), style=style, indent=ind, gap=gap, depth=depth,
                        text=" ".join(content.split()), lastch=content[-1:] if content else "", markup=markup))
            if depth == 0:
                for i in range(s, e):
                    plain[i + 1] = True
        elif t.type == "fence" and t.map:
            s, e = t.map
            for i in range(s, e):
                code[i + 1] = "fenced"
            fenceline[s + 1] = True
            if e - 1 > s and re.match(r"^[ >\t]*(```+|~~~+)\s*$", lines[e - 1] if e - 1 < n else ""):
                fenceline[e] = True
            B.append(_b("fence", t.map, style=t.markup[:1], info=t.info.strip(), depth=depth))
        elif t.type == "code_block" and t.map:
            s, e = t.map
            for i in range(s, e):
                code[i + 1] = "indented"
            B.append(_b("icode", t.map, depth=depth))
        elif t.type == "hr" and t.map:
            B.append(_b("hr", t.map, style=_strip_containers(lines[t.map[0]]).strip(), depth=depth))
        elif t.type == "html_block" and t.map:
            s, e = t.map
            for i in range(s, e):
                html[i + 1] = True
            B.append(_b("html", t.map, depth=depth))
        elif t.type == "paragraph_open" and t.map:
            B.append(_b("p", t.map, depth=depth))
            if depth == 0:
                for i in range(t.map[0], t.map[1]):
                    plain[i + 1] = True
    L = []
    for i, l in enumerate(lines, 1):
        trail = len(l) - len(l.rstrip(" "))
        L.append({"len": len(l), "trail": trail, "tabs": l.count("\t"), "blank": not l.strip(" \t"),
                  "cblank": bool(l.strip(" \t")) and not l.replace(">", "").strip(" \t"),
                  "code": code[i], "html": html[i], "heading": heading[i], "setext": setext[i], "fenceline": fenceline[i], "inlist": inlist[i], "plain": plain[i],
                  "ws": [k + 1 for k, ch in enumerate(l) if ch in " \t"]})
    B.sort(key=lambda b: (b["ln"], -b["endln"]))
    return L, B


def _b(k, mp, **kw):
    d = {"k": k, "ln": mp[0] + 1, "endln": mp[1], "level": 0, "style": "", "info": "", "marker": "", "depth": 0, "indent": 0, "gap": 0, "text": "", "lastch": "", "markup": False}
    d.update(kw)
    return d


def _strip_containers(line):
    """remove block quote markers and list markers in front of a leaf block's first line"""
    s = line
    while True:
        m = re.match(r"^( {0,3})(>[ ]?|[-+*][ \t]+|\d{1,9}[.)][ \t]+)", s)
        if not m:
            return s
        s = s[m.end():]
