"""Run TLC / SANY and parse what they print."""
import json
import os
import re
import shutil
import subprocess
import tempfile
import time

VERIF = os.path.dirname(os.path.dirname(os.path.abspath(__file__)))
SPEC = os.environ.get("VERIF_SPEC", os.path.join(VERIF, "spec"))      # VERIF_SPEC: development copy of the specifications
JAR = "/opt/veriftools/tla/tla2tools.jar:/opt/veriftools/tla/CommunityModules-deps.jar"


class TlcError(Exception):
    """Machinery failure (exit 2): TLC could not run / parse / evaluate the spec."""


class TlcResult:
    def __init__(self):
        self.generated = 0
        self.distinct = 0
        self.depth = 0
        self.ok = False
        self.violated = None  # name of violated invariant / property
        self.printed = []  # parsed PrintT values (json) or raw strings
        self.raw = ""
        self.wall = 0.0
        self.coverage = {}
        self.cmd = ""

    def as_cov(self):
        return {"states": self.distinct, "transitions": self.generated, "depth": self.depth}


def scratch(prefix="vh-"):
    base = "/dev/shm" if os.path.isdir("/dev/shm") else tempfile.gettempdir()
    return tempfile.mkdtemp(prefix=prefix, dir=base)


_RE_STATES = re.compile(r"^(\d+) states generated, (\d+) distinct states found")
_RE_DEPTH = re.compile(r"depth of the complete state graph search is (\d+)")
_RE_INV = re.compile(r"Error: Invariant (\S+) is violated")
_RE_PROP = re.compile(r"Error: (Action|Temporal) propert(y|ies) (\S+)? ?(is|were) violated")
_RE_COV = re.compile(r"^<(\w+) line (\d+), col (\d+) to line (\d+), col (\d+) of module (\w+)>: (\d+):(\d+)")


def run(module, cfg=None, workers=16, env=None, timeout=1800, simulate=None, depth=None,
        seed=None, coverage=False, deadlock=False, cwd=None, extra=(), java_opts=None,
        keep_raw=True, dump=None):
    """Run TLC on spec/<module>.tla (module may contain a sub-directory)."""
    cwd = cwd or os.path.join(SPEC, os.path.dirname(module))
    mod = os.path.basename(module)
    meta = scratch("tlc-")
    cmd = ["java", "-XX:+UseParallelGC"]
    if java_opts:
        cmd += list(java_opts)
    # spec/ root on the library path so that sub-directory modules can EXTEND the main ones
    cmd += ["-DTLA-Library=" + SPEC, "-cp", JAR, "tlc2.TLC", "-workers", str(workers),
            "-metadir", meta, "-noGenerateSpecTE"]
    if cfg:
        cmd += ["-config", cfg]
    if simulate:
        cmd += ["-simulate", simulate]
    if depth:
        cmd += ["-depth", str(depth)]
    if seed is not None:
        cmd += ["-seed", str(seed)]
    if coverage:
        cmd += ["-coverage", "1"]
    if deadlock:
        cmd += ["-deadlock"]
    if dump:
        cmd += ["-dump", dump]
    cmd += list(extra)
    cmd += [mod + ".tla"]
    e = dict(os.environ)
    e.pop("JAVA_TOOL_OPTIONS", None)
    if env:
        e.update({k: str(v) for k, v in env.items()})
    t0 = time.time()
    try:
        p = subprocess.run(cmd, cwd=cwd, env=e, capture_output=True, text=True, timeout=timeout)
    except subprocess.TimeoutExpired as ex:
        shutil.rmtree(meta, ignore_errors=True)
        raise TlcError("TLC timed out after %ss: %s" % (timeout, " ".join(cmd))) from ex
    finally:
        pass
    shutil.rmtree(meta, ignore_errors=True)
    r = TlcResult()
    r.cmd = " ".join(cmd)
    r.wall = time.time() - t0
    out = p.stdout
    r.raw = out if keep_raw else ""
    for line in out.splitlines():
        m = _RE_STATES.match(line)
        if m:
            r.generated, r.distinct = int(m.group(1)), int(m.group(2))
            continue
        m = _RE_DEPTH.search(line)
        if m:
            r.depth = int(m.group(1))
            continue
        m = _RE_INV.search(line)
        if m:
            r.violated = m.group(1)
            continue
        if line.startswith("Error: Action property") or line.startswith("Error: Temporal propert"):
            r.violated = line[len("Error: "):]
            continue
        if line.startswith('"{') or line.startswith('"['):
            try:
                r.printed.append(json.loads(json.loads(line)))
            except ValueError:
                r.printed.append(line)
            continue
        if line.startswith("<<") and line.endswith(">>"):
            r.printed.append(line)
            continue
        m = _RE_COV.match(line)
        if m:
            r.coverage[m.group(1)] = r.coverage.get(m.group(1), 0) + int(m.group(8))
    r.ok = ("Model checking completed. No error has been found." in out
            or (simulate is not None and "Error:" not in out))
    if not r.ok and r.violated is None:
        # parse errors, evaluation errors, deadlock ...
        if "Deadlock reached" in out:
            r.violated = "Deadlock"
        else:
            tail = "\n".join(out.splitlines()[-40:])
            raise TlcError("TLC failed (%s):\n%s\n%s" % (" ".join(cmd), tail, p.stderr[-2000:]))
    return r


def sany(module):
    cwd = os.path.join(SPEC, os.path.dirname(module))
    cmd = ["java", "-DTLA-Library=" + SPEC, "-cp", JAR, "tla2sany.SANY", os.path.basename(module) + ".tla"]
    p = subprocess.run(cmd, cwd=cwd, capture_output=True, text=True, timeout=300)
    if p.returncode != 0 or "Semantic errors" in p.stdout or "***Parse Error***" in p.stdout or "Fatal" in p.stdout:
        raise TlcError("SANY failed on %s:\n%s" % (module, p.stdout[-3000:]))
    return True


def tla_str(s):
    """Python str -> TLA+ string literal."""
    return '"' + s.replace("\\", "\\\\").replace('"', '\\"') + '"'
