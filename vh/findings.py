"""Known findings: committed list, matched by signature; never written at run time.

known_findings.json holds the findings.  An entry lists its signatures inline ("signature": exact strings or globs) and/or
refers to the committed table known/<property>.tsv ("signature_file"), whose lines are  <entry id> TAB <exact signature>:
the per-input lists of the parser properties are too long for the JSON file.  kind=fixed entries suppress nothing."""
import fnmatch
import json
import os

VERIF = os.path.dirname(os.path.dirname(os.path.abspath(__file__)))
PATH = os.path.join(VERIF, "known_findings.json")
_TABLES = {}


def _table(relpath):
    if relpath not in _TABLES:
        t = {}
        p = os.path.join(VERIF, relpath)
        if os.path.exists(p):
            with open(p, encoding="utf-8") as f:
                for line in f:
                    line = line.rstrip("\n")
                    if not line or line.startswith("#"):
                        continue
                    eid, _, sig = line.partition("\t")
                    t[sig] = eid
        _TABLES[relpath] = t
    return _TABLES[relpath]


def load(pid=None):
    if not os.path.exists(PATH) or os.environ.get("VH_NO_KNOWN") == "1":       # VH_NO_KNOWN: tools list every signature (tools/harvest.py)
        return []
    with open(PATH, encoding="utf-8") as f:
        entries = json.load(f)["findings"]
    return [e for e in entries if pid is None or e["property"] == pid]


def match(entries, signature):
    """Return the 'known' entry whose signature (exact, glob, or line of its signature file) matches, else None."""
    for e in entries:
        if e.get("kind", "known") != "known":
            continue
        sigs = e.get("signature", [])
        sigs = sigs if isinstance(sigs, list) else [sigs]
        for s in sigs:
            if s == signature or (("*" in s or "?" in s) and fnmatch.fnmatchcase(signature, s)):
                return e
        sf = e.get("signature_file")
        if sf and _table(sf).get(signature) == e["id"]:
            return e
    return None
