"""Known findings: committed list, matched by signature; never written at run time."""
import fnmatch
import json
import os

VERIF = os.path.dirname(os.path.dirname(os.path.abspath(__file__)))
PATH = os.path.join(VERIF, "known_findings.json")


def load(pid=None):
    if not os.path.exists(PATH):
        return []
    with open(PATH, encoding="utf-8") as f:
        entries = json.load(f)["findings"]
    return [e for e in entries if pid is None or e["property"] == pid]


def match(entries, signature):
    """Return the 'known' entry whose signature (exact or glob) matches, else None.
    'fixed' entries never match: they suppress nothing."""
    for e in entries:
        if e.get("kind", "known") != "known":
            continue
        sigs = e["signature"] if isinstance(e["signature"], list) else [e["signature"]]
        for s in sigs:
            if s == signature or (("*" in s or "?" in s) and fnmatch.fnmatchcase(signature, s)):
                return e
    return None
