"""C14 -- the rule engine honours the plugin life-cycle for every file.

spec/Engine.tla: per rule, per (sub-)pass: start, every token in order up to the end-of-stream token, every line in
order with exact text and 1-based number, completion; disabled rules receive nothing; all rules of a pass receive the
same stream.  MC_Engine checks that these guards imply "served completely, exactly once".  Real runs: seven recording
plugins (scan-only with all / token-only / line-only callbacks, fix-capable at levels 0, 1, 5, disabled by default)
are loaded next to the built-in rules; their callback logs are validated against Trace_Engine, with the expected
token hashes and line texts computed independently from the file's bytes."""
import hashlib
import itertools
import json
import os
import shutil

from .. import impl, runs, tlc
from ..ctx import Ctx, Machinery
from ..evidence import seed

REC = {  # id -> (file, enabled by default, fix-capable, callbacks)
    "VHR001": ("vh_rec_all", True, False, "stlc"), "VHR002": ("vh_rec_tok", True, False, "t"),
    "VHR003": ("vh_rec_lin", True, False, "l"), "VHR010": ("vh_rec_fix0", True, True, "stlc"),
    "VHR011": ("vh_rec_fix1", True, True, "stlc"), "VHR015": ("vh_rec_fix5", True, True, "stlc"),
    "VHR020": ("vh_rec_off", False, False, "stlc"),
}
DOCS = {  # kind -> (bytes, content is left unchanged by fix under the default rules)
    "empty": (b"", False),
    "oneline": (b"# Title\n", True),
    "nonl": (b"# Title\n\nlast line without newline", False),
    "pragma": (b"<!-- pyml disable-next-line md013 -->\n", False),
    "normal": (b"# Title\n\nSome *text* with a [link](/url).\n\n- item 1\n- item 2\n\n> quote\n", True),
    "crlf": (b"# Title\r\n\r\nSome text.\r\n", False),
    "fixable": (b"#  Title\n\nSome text.   \n\n\n\nMore.\n", False),
    "pragmamid": (b"# Title\n\n<!-- pyml disable-num-lines 2 md009-->\nSome text.   \nMore.\n", False),
    "tabs": (b"# Title\n\n-\titem\twith tabs\n\n```text\ncode\n```\n", False),
    # characters that str.splitlines() treats as line ends but a text file does not: FF, VT, FS, NEL, LS, PS
    "seps": ("# Title\n\nform\x0cfeed, vt\x0bx, fs\x1cx, nel\x85x, ls\u2028x and ps\u2029x\nnext line\n".encode("utf-8"), False),
    "faultc": (b"# Title\n\nFAULT-COMPLETE here\n", False),
    "faultl": (b"# Title\n\nFAULT-LINE here\n", False),
    "faultt": (b"# Title\n\nFAULT-TOKEN here\n", False),
}
FAULTY = os.path.join(impl.PLUGINS, "vh_faulty.py")


def expected(data):
    """(token hashes, lines) the engine must deliver for a file with these bytes"""
    import io
    text = io.TextIOWrapper(io.BytesIO(data), encoding="utf-8").read()      # universal newlines, like the file provider
    lines = text.split("\n")
    tk = impl.default_tokenizer()
    toks = tk.transform(text, do_add_end_of_stream_token=True)
    if toks and toks[-1].is_pragma:
        toks = toks[:-1]
    return [hashlib.sha1(str(t).encode("utf-8", "replace")).hexdigest()[:10] for t in toks], lines


def _case(job):
    mode, kinds, extra = job
    files = [("f%d_%s.md" % (i + 1, k), DOCS[k][0]) for i, k in enumerate(kinds)]
    argv = []
    for pid, (fn, _en, _fx, _cb) in sorted(REC.items()):
        argv += ["--add-plugin", os.path.join(impl.PLUGINS, fn + ".py")]
    argv += extra
    argv += [mode] + [n for n, _ in files]
    o = runs.execute(files, argv)
    exp = {}
    for n, data in files:
        try:
            exp[n] = expected(data)
        except Exception as ex:  # pylint: disable=broad-except
            exp[n] = None
    o["exp"] = exp
    return o


def build_trace(mode, kinds, o, enabled):
    tr = [{"ev": "configure", "enabled": sorted(enabled), "fixable": sorted(p for p in REC if REC[p][2]),
           "cbs": {p: list(REC[p][3]) for p in REC}}]
    part = None
    cur = None
    cnt = {}       # recorders without starting_new_file cannot reset their counters: number their callbacks per (sub-)pass here
    for e in o["events"]:
        ev = e["ev"]
        if ev in ("file_begin", "level_begin"):
            cnt = {}
        if ev == "file_begin":
            cur = e["file"]
            kd = kinds[int(cur[1]) - 1]
            ex = o["exp"].get(cur)
            constrained = ex is not None and (mode == "scan" or (DOCS[kd][1] and cur not in o["changed"]))
            tr.append({"ev": "begin_file", "mode": mode, "tokens": ex[0] if constrained else [], "lines": ex[1] if constrained else []})
            part = {p: 0 for p in REC}
        elif ev == "level_begin" and part is not None:
            for p in REC:
                if p.lower() in e["fix_list"] or p.lower() in e["collect_list"]:
                    part[p] += 1
        elif ev == "cb":
            if cur is None:
                tr.append({"ev": "cb", "p": e["p"], "k": "outside-file"})
                continue
            d = {"ev": "cb", "p": e["p"], "k": e["k"]}
            nostart = "s" not in REC[e["p"]][3]
            if e["k"] == "token":
                i = e["i"]
                if nostart:
                    if cnt.get((e["p"], "eos")):
                        cnt[(e["p"], "t")] = 0
                        cnt[(e["p"], "eos")] = False
                    i = cnt[(e["p"], "t")] = cnt.get((e["p"], "t"), 0) + 1
                    cnt[(e["p"], "eos")] = bool(e["eos"])
                d.update(i=i, h=e["h"], eos=bool(e["eos"]), pg=bool(e.get("pg")))
            elif e["k"] == "line":
                j = e["j"]
                if nostart:
                    j = cnt[(e["p"], "l")] = cnt.get((e["p"], "l"), 0) + 1
                d.update(j=j, ln=e["ln"], text=e["text"])
            elif e["k"] == "complete":
                d.update(ln=e["ln"])
            tr.append(d)
        elif ev == "file_end":
            tr.append({"ev": "end_file", "ok": bool(e["ok"]), "part": part})
            cur, part = None, None
    if cur is not None:
        tr.append({"ev": "end_file", "ok": False, "part": part})
    return tr


def validate(traces):
    d = tlc.scratch("trace-")
    path = os.path.join(d, "engine.json")
    with open(path, "w", encoding="utf-8") as f:
        json.dump(traces, f)
    try:
        r = tlc.run("trace/Trace_Engine", "Trace_Engine.cfg", env={"TRACE_FILE": path})
    finally:
        shutil.rmtree(d, ignore_errors=True)
    if not r.ok:
        raise Machinery("Trace_Engine: TLC reports %s" % r.violated)
    verdicts = {}
    for rec in r.printed:
        if isinstance(rec, dict) and rec.get("v") in ("ACCEPT", "REJECT"):
            verdicts.setdefault(int(rec["tid"]), []).append(rec)
    out = []
    for i in range(1, len(traces) + 1):
        v = verdicts.get(i)
        if not v or len(v) != 1:
            raise Machinery("Trace_Engine: trace %d has %s verdicts" % (i, 0 if not v else len(v)))
        out.append(v[0])
    return r, out


def self_test():
    """The binding must reject a corrupted log: a dropped token, a wrong line text, a callback to a disabled rule."""
    o = _case(("scan", ("normal",), []))
    good = build_trace("scan", ("normal",), o, {p for p in REC if REC[p][1]})
    bad1 = [e for e in good if not (e.get("k") == "token" and e.get("p") == "VHR001" and e.get("i") == 3)]
    bad2 = [dict(e, text=e["text"] + "x") if e.get("k") == "line" and e.get("p") == "VHR003" and e.get("j") == 2 else e for e in good]
    k = next(i for i, e in enumerate(good) if e.get("k") == "start")
    bad3 = good[:k] + [{"ev": "cb", "p": "VHR020", "k": "start"}] + good[k:]
    _r, v = validate([good, bad1, bad2, bad3])
    if [x["v"] for x in v] != ["ACCEPT", "REJECT", "REJECT", "REJECT"]:
        raise Machinery("Trace_Engine self-test failed: %s" % [x["v"] for x in v])


def run(pid, tier):
    ctx = Ctx(pid, tier, "model_checking")
    r = tlc.run("mc/MC_Engine", "MC_Engine.cfg")
    ctx.ev.add_tlc("MC_Engine (free exploration of the dispatch guards)", r)
    if not r.ok:
        raise Machinery("MC_Engine violates %s" % r.violated)
    self_test()
    kinds = [k for k in DOCS if not k.startswith("fault")]
    seqs = [(k,) for k in kinds]
    pairs = list(itertools.product(kinds, repeat=2))
    if tier == "quick":
        import random
        rnd = random.Random(seed())
        pairs = rnd.sample(pairs, 30)
        triples = [tuple(rnd.choice(kinds) for _ in range(3)) for _ in range(10)]
    else:
        triples = list(itertools.product(kinds[:6], repeat=3))
    seqs += pairs + triples
    jobs = []
    for s in seqs:
        for mode in ("scan", "fix"):
            jobs.append((mode, s, []))
    for s in seqs[: (12 if tier == "quick" else 120)]:
        jobs.append(("scan", s, ["-e", "vhr020"]))                   # the default-disabled recorder switched on
        jobs.append(("scan", s, ["-d", "vhr001,vhr010"]))             # default-enabled recorders switched off
        jobs.append(("fix", s, ["-d", "md009,md010,md047"]))          # no built-in rule at level 0: the first pass belongs to the recorder alone
    # a failing file (a rule raises in next_token / next_line / completed_file) must not disturb the life-cycle of the next ones
    fl = ["--add-plugin", FAULTY, "--continue-on-error"]
    for fk in ("faultc", "faultl", "faultt"):
        for mode in ("scan", "fix"):
            jobs.append((mode, (fk, "normal"), fl))
            jobs.append((mode, ("normal", fk, "oneline", "normal"), fl))
            if tier == "thorough":
                for k in kinds:
                    jobs.append((mode, (fk, k), fl))
                    jobs.append((mode, (k, fk, k), fl))
    res = impl.pmap(_case, jobs, procs=16)
    traces, keep = [], []
    for (mode, s, extra), o in zip(jobs, res):
        enabled = {p for p in REC if REC[p][1]}
        if "-e" in extra:
            enabled.add("VHR020")
        if "-d" in extra and "vhr001" in extra[1]:
            enabled -= {"VHR001", "VHR010"}
        if o["exc"] or o["code"] not in (0, 1, 3) or (o["code"] == 1 and mode == "fix" and "--continue-on-error" not in extra):
            ctx.violation("run-failed:%s:%s" % (mode, "+".join(s)), {"argv": o["argv"], "code": o["code"], "exc": o["exc"], "stderr": o["err"][-300:]})
            continue
        traces.append(build_trace(mode, s, o, enabled))
        keep.append((mode, s, extra, o))
    tr, verdicts = validate(traces)
    ctx.ev.add_tlc("Trace_Engine (%d runs)" % len(traces), tr)
    ctx.ev.cov["traces_validated_against_impl"] = len(traces)
    nontriv = set()
    for (mode, s, extra, o), t, v in zip(keep, traces, verdicts):
        nontriv.add((mode, s, tuple(extra)))
        if v["v"] == "ACCEPT":
            continue
        pos = v["pos"]
        ev = t[pos - 1] if pos - 1 < len(t) else {}
        role = ""
        p = v.get("p", "")
        if p in REC:
            role = "fix-capable-level-%s" % {"VHR010": 0, "VHR011": 1, "VHR015": 5}.get(p) if REC[p][2] else ("disabled" if not REC[p][1] else "scan-only")
        why = ""
        if v.get("k") == "line" and ev.get("ln") != ev.get("j"):
            why = ":line-number-%s" % ("zero" if ev.get("ln") == 0 else "wrong")
        elif v.get("k") == "complete":
            st = v.get("state", {})
            why = ":ln=%s-after-%s-lines" % ("0" if ev.get("ln") == 0 else ("-1" if ev.get("ln") == -1 else "n"), "some" if st.get("li") else "no")
        sig = "reject:%s:%s:%s:%s%s" % (mode, v["what"], v.get("k", ""), role, why)
        ctx.violation(sig, {"argv": [a for a in o["argv"] if not a.endswith(".py") and a != "--add-plugin"], "documents": list(s), "verdict": v, "event": ev, "context": t[max(0, pos - 4):pos + 1]})
    ctx.ev.cov["evaluations"] = len(jobs)
    ctx.ev.cov["distinct_nontrivial"] = len(nontriv)
    ctx.ev.cov["rule"] = ("file sequences (1-3 files) over document kinds {empty, one line, no final newline, pragma only, normal, CRLF, fixable, "
                          "pragma in the middle, tabs} x scan/fix x recorder sets; every run is distinct and non-trivial (callbacks are delivered)")
    ctx.ev.sample({"mode": jobs[0][0], "documents": list(jobs[0][1]), "trace_events": len(traces[0]) if traces else 0,
                   "first_events": traces[0][:6] if traces else []})
    ctx.ev.assumptions += ["expected tokens are computed by calling the parser on the file's text in the harness (the engine must deliver that stream unchanged)",
                           "the recording plugins use only the documented plugin interface"]
    return ctx


def replay(payload):
    print(json.dumps(payload.get("case"), indent=1)[:4000])
    return 1
