"""C15 -- failures are contained: reported (naming the file), never success, nothing damaged or left behind.

Three parts, all driven by the App specification:
 1. scenarios of MC_AppScen with a failing file kind at every position (plugin error while handed a token / a line,
    parser error, undecodable file), scan / fix / stdin, with and without --continue-on-error;
 2. fault enumeration: for small file sets, one fault at EVERY individual callback invocation of a rule (start, each
    token, each line, completion) and at every parser invocation; the outcome expected for "fault in file i" is the
    outcome the specification assigns to the scenario with a failing file at position i;
 3. crash enumeration: the fix of one file is run in a child process which is killed (SIGKILL) at each system call
    that touches the target during write-back (vh.crash); the target must be the original or the completely fixed text.
Every run's probe events are validated against Trace_App."""
import os

from .. import appscen, impl, runs
from ..ctx import Ctx, Machinery
from ..evidence import seed
from . import appcommon

ABSTRACT = {"clean": "clean", "trig": "trig", "fixable": "fixable", "fixtok": "fixable", "fix2": "fixable"}


def _files(base):
    return [("f%d.md" % (i + 1), appscen.CONTENT[k]) for i, k in enumerate(base)]


def _argv(cmd, coe, names):
    return ["--add-plugin", appscen.FAULTY] + (["--continue-on-error"] if coe else []) + [cmd] + names


def _dry(case):
    cmd, coe, base = case
    files = _files(base)
    o = runs.execute(files, _argv(cmd, coe, [n for n, _ in files]), env={"VH_FAULT_LOG": "1"})
    cur, ticks = None, []
    for e in o["events"]:
        if e["ev"] == "file_begin":
            cur = e["file"]
        elif e["ev"] == "vh_tick":
            ticks.append((e["kind"], e["n"], cur))
    return ticks, o["code"]


def _faulted(job):
    cmd, coe, base, kind, n = job
    files = _files(base)
    env = {"VH_PARSE_FAULT": str(n)} if kind == "parse" else {"VH_FAULT": "%s:%d" % (kind, n)}
    return runs.execute(files, _argv(cmd, coe, [x for x, _ in files]), env=env)


RICH = (b"# Title\n\n- item one\n  - nested a\n    - deep b   \n  - nested c\n- item two\n\n> quote\n> - list in quote\n>   more\n\n"
        b"1. one\n   ```text\n   code\n   ```\n2. two\n\n<div>\nhtml\n</div>\n\ntext\twith tab and *emphasis* and [link](/u).   \n")
RICH += b"\n\n\nAfter two blank lines\n\n***\n\n~~~text\ntilde\n~~~\n\nSetext two\n---\n\n+ plus\n\n## Title\n\n## Title\n"
RICH2 = (b"# Other\n\n* a\n* b\n  * c\n\ntext\twith a tab\n\n> - q\n>   - r\n\nOne blank line above.\n\n---\n\n```text\nbacktick\n```\n\n## Sub\n\n- dash\n"
         b"\n[link]: /u\n\n[link] and *e*\n")


def _iso_run(job):
    cmd, kind, n = job
    files = [("f1.md", RICH2), ("f2.md", RICH), ("f3.md", RICH2)]
    env = {"VH_FAULT_LOG": "1"} if kind is None else {"VH_FAULT": "%s:%d" % (kind, n)}
    return runs.execute(files, ["--add-plugin", appscen.FAULTY, "--continue-on-error", cmd, "f1.md", "f2.md", "f3.md"], env=env)


def _per_file(o, name):
    lines = sorted(l for l in o["out"].splitlines() if l.startswith(name + ":") or l == "Fixed: " + name)
    return lines, o["contents"].get(name)


def _isolation(ctx, tier):
    n_points = 0
    for cmd in ("scan", "fix"):
        base = _iso_run((cmd, None, 0))
        ticks, cur = [], None
        for e in base["events"]:
            if e["ev"] == "file_begin":
                cur = e["file"]
            elif e["ev"] == "vh_tick" and cur == "f2.md" and e["kind"] in ("token", "line", "complete"):
                ticks.append((e["kind"], e["n"]))
        if not ticks:
            raise Machinery("isolation: the faulty plugin saw no callback in f2.md")
        if tier == "quick":
            ticks = ticks[::3] + ticks[-2:]
        jobs = [(cmd, k, n) for k, n in sorted(set(ticks))]
        res = impl.pmap(_iso_run, jobs, procs=16)
        want = {f: _per_file(base, f) for f in ("f1.md", "f3.md")}
        for (c_, k, n), o in zip(jobs, res):
            n_points += 1
            if "f2.md" not in o["err"] and "f2.md" not in o["out"]:
                continue                                  # the fault did not fire in f2 (counter differs): no verdict
            for f in ("f1.md", "f3.md"):
                got = _per_file(o, f)
                if got != want[f]:
                    ctx.violation("continue-isolation:%s:%s-differs-after-fault-in-f2:%s" % (cmd, f, k),
                                  {"cmd": cmd, "fault": {"callback": k, "invocation": n}, "file": f, "expected_lines": want[f][0][:6],
                                   "observed_lines": got[0][:6], "content_differs": got[1] != want[f][1], "stderr": o["err"][-400:]})
    ctx.ev.cov["evaluations"] += n_points
    ctx.ev.parts["isolation_fault_points_structured_documents"] = n_points


def run(pid, tier):
    ctx = Ctx(pid, tier, "fault_enumeration")
    appcommon.model_check(ctx)
    cfg = "MC_AppScen_c15_quick.cfg" if tier == "quick" else "MC_AppScen_c15_thorough.cfg"
    scen, obs, traces = appcommon.run_scenarios(ctx, cfg, lambda s: True, {"C15"})
    appcommon.validate(ctx, scen, obs, traces, {"C15"}, appcommon.classify_reject)
    table = {(s["sc"]["cmd"], s["sc"]["coe"], tuple(s["sc"]["kinds"])): s for s in scen if s["sc"]["sel"] == "none"}

    # ---- part 2: a fault at every individual callback / parser invocation
    import itertools
    kinds = ["clean", "fixable", "fixtok", "fix2"] if tier == "quick" else ["clean", "trig", "fixable", "fixtok", "fix2"]
    maxn = 2 if tier == "quick" else 3
    bases = [b for n in range(1, maxn + 1) for b in itertools.product(kinds, repeat=n)]
    if tier == "quick":   # every single, every pair with a multi-pass document in it
        bases = [b for b in bases if len(b) == 1 or ("fix2" in b or "fixtok" in b)]
    cases = [(cmd, coe, b) for b in bases for cmd in ("scan", "fix") for coe in (False, True)]
    dry = impl.pmap(_dry, cases, procs=16)
    jobs, meta = [], []
    for (cmd, coe, b), (ticks, code) in zip(cases, dry):
        if not ticks:
            raise Machinery("fault enumeration: the faulty plugin saw no callback for %s" % (b,))
        for kind, n, f in ticks:
            if f is None:
                continue
            jobs.append((cmd, coe, b, kind, n))
            meta.append(int(f[1:-3]))
    res = impl.pmap(_faulted, jobs, procs=16)
    ftraces, fjobs = [], []
    points = set()
    for (cmd, coe, b, kind, n), i, o in zip(jobs, meta, res):
        ab = [ABSTRACT[k] for k in b]
        ab[i - 1] = "terr" if kind == "parse" else ("perrl" if kind == "line" else "perr")
        rec = table.get((cmd, coe, tuple(ab)))
        if rec is None:
            raise Machinery("no specification outcome for scenario %s" % ((cmd, coe, tuple(ab)),))
        how = "fault=%s" % kind
        if cmd == "fix":
            # which pass of the failing file was hit (write-backs completed before the fault)
            wbs = 0
            cur = None
            for e in o["events"]:
                if e["ev"] == "file_begin":
                    cur = e["file"]
                    wbs = 0 if cur == "f%d.md" % i else wbs
                elif e["ev"] == "writeback_end" and e["file"] == "f%d.md" % i:
                    wbs += 1
            how += ":after-%d-writebacks" % wbs
        for prop, sig, detail in appscen.compare(rec, o, base=list(b), failing=i, how=how):
            if prop == "C15":
                detail = dict(detail) if isinstance(detail, dict) else {"detail": detail}
                detail["fault"] = {"callback": kind, "invocation": n, "file_index": i, "documents": list(b)}
                ctx.violation(sig, detail)
        rank = {nm: j + 1 for j, nm in enumerate(sorted(o["names"]))}
        ftraces.append(appscen.trace_of(cmd, "default", coe, o["events"], o["code"], rank,
                                        disk=([c for c in o["changed"] if c != "f%d.md" % i],
                                              len(o["created"]) + len(o["left"]) + len(o["deleted"]))))
        fjobs.append((cmd, coe, b, kind, n, i))
        points.add((cmd, coe, b, kind, n))
    tr, verdicts = appscen.validate_traces(ftraces, "faults")
    ctx.ev.add_tlc("Trace_App (%d faulted runs)" % len(ftraces), tr)
    ctx.ev.cov["traces_validated_against_impl"] += len(ftraces)
    for (cmd, coe, b, kind, n, i), o, t, v in zip(fjobs, res, ftraces, verdicts):
        if v["v"] == "ACCEPT":
            continue
        st = v.get("state", {})
        what = v["what"]
        if what in ("exit", "disk") and st.get("ntemps", 0):
            sig = "fault-trace:temp-left:%s:fault=%s" % (cmd, kind)
        elif what == "disk" and (len(o["left"]) or len(o["created"])):
            sig = "fault-trace:temp-left:%s:fault=%s" % (cmd, kind)
        else:
            sig = "fault-trace-%s:%s:%s:fault=%s:coe=%s" % (v["v"].lower(), what, cmd, kind, "T" if coe else "F")
        ctx.violation(sig, {"fault": {"callback": kind, "invocation": n, "file_index": i, "documents": list(b)},
                            "argv": o["argv"], "verdict": v, "stderr": o["err"][-300:]})
    ctx.ev.cov["evaluations"] += len(jobs)
    ctx.ev.cov["distinct_nontrivial"] += len(points)
    ctx.ev.parts["fault_points"] = len(points)
    ctx.ev.parts["fault_points_by_kind"] = {k: sum(1 for p in points if p[3] == k) for k in ("start", "token", "line", "complete", "parse")}
    if jobs:
        ctx.ev.sample({"fault_point": {"cmd": jobs[0][0], "continue_on_error": jobs[0][1], "documents": list(jobs[0][2]),
                                       "callback": jobs[0][3], "invocation": jobs[0][4]}, "observed_code": res[0]["code"]})

    # ---- part 2b: isolation with structured documents: a fault at callbacks of the middle one of three documents with nested
    # lists, quotes, fences and HTML (--continue-on-error): what is said about / done to the OTHER files must not change
    _isolation(ctx, tier)

    # ---- part 3: kill the process at every system call on the target during write-back
    from .. import crash
    crash.enumerate_kills(ctx, tier)

    ctx.ev.cov["rule"] = ("(1) scenarios of MC_AppScen with a failing kind at each position; (2) one injected exception per callback "
                          "invocation / parser invocation of each run (distinct = distinct (command, flag, documents, callback, index)); "
                          "(3) one SIGKILL per system call on the target file during write-back")
    ctx.ev.assumptions += ["faults are injected through a third-party plugin (documented --add-plugin contract) and a wrapper around the "
                           "parser's block pass", "process kills are injected with strace -e inject=...:signal=SIGKILL"]
    return ctx
replay = appcommon.replay
