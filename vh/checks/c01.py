"""C01 -- parsing is total and bounded: every document tokenizes; no internal error, no loop; small polynomial work.

(1) spec/ParserLoop.tla models the implementation's main loop (source, requeue, closing step) with the variant that makes
    it terminate; TLC checks Termination under fairness; the `pstep` probe events of real parses are validated against it
    (Trace_ParserLoop), so the real loop is shown to follow the terminating model on every recorded parse.
(2) every document TLC enumerates from spec/MdBlocks.tla, every document of <= 4 lines over a link-reference-definition
    alphabet (the requeue paths), and the fixed generated / systematic / repository pools are parsed with a CPU-time
    watchdog: an exception or a watchdog hit is a violation, keyed by exception type, innermost function and document shape.
(3) work = number of Python function entries (deterministic): pumped families unit^k, k = 4..64, must have a log-log
    slope < 3 and stay below a quadratic bound calibrated on the enumerated space."""
import itertools
import math

from .. import docspace, impl, psweep, tlc, tracev, work
from ..ctx import Ctx, Machinery
from ..evidence import seed

LRD_LINES = ["[foo]:", "/url", "\"title", "'t'", "[foo]: /u", "abc", "", "> [foo]:", "- [a]:", "[b]: /x 'y", "  [c]:", "[d]: <"]


def _parse(item):
    name, text = item
    r, ev = impl.parse(text, timeout=3, want_events=True)
    steps = [e for e in ev if e["ev"] == "pstep"]
    exc = r[1:] if isinstance(r, tuple) and r and r[0] == "EXC" else None
    trace = None
    if exc is None and (any(e["requeued"] for e in steps) or (__import__("zlib").crc32(text.encode("utf-8")) & 15) == 0):
        nl = len(text.split("\n"))
        trace = [{"ln_in": e["ln_in"], "closing_in": bool(e["closing_in"]), "ign_in": bool(e["ign_in"]), "rq_in": e["rq_in"], "requeued": e["requeued"],
                  "keep": bool(e["keep"]), "ln_out": e["ln_out"], "rq_out": e["rq_out"], "ign_out": bool(e["ign_out"]), "closing_out": bool(e["closing_out"]),
                  "src": nl - 1} for e in steps]
    return {"exc": exc, "trace": trace, "requeues": sum(1 for e in steps if e["requeued"])}


def _work(item):
    fam, unit, k = item
    text = unit * k
    impl.default_tokenizer()
    try:
        n, r = work.measure(impl.parse, text, None, 20)
    except Exception as ex:  # pylint: disable=broad-except
        return (fam, k, None, "EXC:%s" % type(ex).__name__)
    if isinstance(r, tuple) and r and r[0] == "EXC":
        return (fam, k, n, "EXC:%s" % r[1])
    return (fam, k, n, None)


def _sig(name, text, exc):
    typ, msg, where = exc[0], exc[1], exc[2] if len(exc) > 2 else ""
    if typ == "Watchdog":
        where = ""           # the place where the watchdog fires is not stable; the document shape identifies the case
    shape = name if name.startswith(("gen/", "sys/", "test/", "newdocs/", "docs/")) or name.endswith(".md") else psweep.doc_shape(text)
    return "%s@%s :: %s" % (typ, where, shape)


def run(pid, tier):
    ctx = Ctx(pid, tier, "model_checking")
    r = tlc.run("mc/MC_ParserLoop", "MC_ParserLoop.cfg")
    ctx.ev.add_tlc("MC_ParserLoop (termination of the main loop under fairness, 5 lines)", r)
    if not r.ok:
        raise Machinery("ParserLoop: %s violated" % r.violated)
    docs = [("", t) for t, _rec in docspace.model_docs(ctx, tier)]
    docs += docspace.other_docs(tier, seed())
    # every document also without its final newline (quick: a slice)
    # (the slice is chosen by a hash of the text: TLC prints the documents in a different order on every run)
    import zlib
    extra = [(n, t[:-1]) for n, t in docs if t.endswith("\n") and not n and (tier == "thorough" or zlib.crc32(t.encode("utf-8")) % 7 == seed() % 7)]
    docs += extra
    res = impl.pmap(_parse, docs, procs=16, chunksize=100)
    traces, tdocs = [], []
    crashes = 0
    for (name, text), o in zip(docs, res):
        if o["exc"]:
            crashes += 1
            ctx.violation(_sig(name, text, o["exc"]), {"document": text, "exception": list(o["exc"]), "name": name})
        elif o["trace"]:
            traces.append(o["trace"])
            tdocs.append(text)
    verdicts = []
    for b0 in range(0, len(traces), 25000):                  # batches: one TLC start per 25 000 recorded parses
        tr_, vb = tracev.validate("trace/Trace_ParserLoop", "Trace_ParserLoop.cfg", traces[b0:b0 + 25000], "c01_%d" % b0, timeout=5400)
        ctx.ev.add_tlc("Trace_ParserLoop (%d parses)" % len(traces[b0:b0 + 25000]), tr_)
        verdicts += vb
    ctx.ev.parts["parses_validated_against_ParserLoop"] = {"parses": len(traces), "with_requeues": sum(1 for o in res if o["requeues"])}
    ctx.ev.cov["traces_validated_against_impl"] = len(traces)
    for text, t, v in zip(tdocs, traces, verdicts):
        if v["v"] != "ACCEPT":
            ctx.violation("main-loop-leaves-model:%s :: %s" % (v["what"], psweep.doc_shape(text)), {"document": text, "verdict": v, "steps": t[:12]})
    # ---- work bound on pumped families
    units = {}
    ind, mk, body = __import__("vh.mdblocks_gen", fromlist=["x"]).ALPHABETS["Q"]
    for i in ind[:2]:
        for m in mk:
            for b in body:
                units["line:%r" % (i + m + b)] = i + m + b + "\n"
    for u in ["> ", "- ", "1. ", "*", "_", "`", "[", "]", "![", "<", "\\", "&", "**a", "[a](", "*a*", "`a`", "[a][b]", "a\tb ", "- a\n  ", "> - "]:
        units["inline:%r" % u] = u
    ks = (4, 8, 16, 32) if tier == "quick" else (4, 8, 16, 32, 64, 128)
    jobs = [(f, u, k) for f, u in sorted(units.items()) for k in ks]
    wres = impl.pmap(_work, jobs, procs=16, chunksize=4)
    byfam = {}
    for fam, k, n, err in wres:
        byfam.setdefault(fam, []).append((k, n, err))
    worst = 0.0
    for fam, pts in sorted(byfam.items()):
        errs = [e for _k, _n, e in pts if e]
        if errs:
            ctx.violation("pumped-family-fails:%s:%s" % (errs[0], fam), {"family": fam, "points": pts})
            continue
        pts.sort()
        (k1, n1, _), (k2, n2, _) = pts[-2], pts[-1]
        u = len(units[fam])
        slope = math.log(n2 / n1) / math.log(k2 / k1) if n1 and n2 else 0
        worst = max(worst, slope)
        if slope >= 3.0:
            ctx.violation("super-cubic-work:%s" % fam, {"family": fam, "points": pts, "slope": slope})
        size = k2 * u
        if n2 > 4000 + 60 * size * size + 3000 * size:
            ctx.violation("work-above-quadratic-bound:%s" % fam, {"family": fam, "points": pts, "size": size})
    ctx.ev.parts["pumped_families"] = len(byfam)
    ctx.ev.parts["worst_loglog_slope"] = round(worst, 2)
    ctx.ev.parts["documents_that_failed_to_parse"] = crashes
    ctx.ev.cov["evaluations"] = len(docs) + len(jobs)
    ctx.ev.cov["distinct_nontrivial"] = len(docs) - crashes
    ctx.ev.cov["rule"] = ("documents enumerated by TLC from MdBlocks, all documents of <= %d lines over a 12-line link-definition alphabet, fixed generated / "
                          "systematic / repository pools, with and without final newline; pumped families of every line shape and inline delimiter" % 4)
    ctx.ev.sample({"document": docs[1][1], "requeue_trace": traces[0][:4] if traces else []})
    return ctx


def replay(payload):
    c = payload.get("case", {})
    text = c.get("document", "")
    print(repr(text))
    print(impl.parse(text, timeout=5))
    return 1
