"""C16 -- all entry points agree: file scan, stdin scan and the Python API; diagnostics change only diagnostics.

Model: spec/Obs.tla.  Per document: key "scan/<selection>" -> the failures (line, column, rule, message) and pragma
errors; key "fix/<selection>" -> the fixed text.  Observations come from `scan <file>`, `scan-stdin`,
api.scan_string, api.scan_path, `fix <file>`, api.fix_string, api.fix_path, each under several rule selections
expressed on the command line and through the API, and from CLI runs under every log level with and without
--stack-trace and --log-file (incl. a multi-file run with a failing file and --continue-on-error)."""
import io
import os
import random
import shutil
import tempfile

from .. import appscen, corpus, impl, obs, runs, tlc
from ..ctx import Ctx, Machinery
from ..evidence import seed
from .c12 import EXTRA

SHAPES = {
    # characters that are special to logging / formatting layers: the text of a document must never be used as a format
    "format-characters": b"# Cost: $5 {0} %s\n\n$ pip install x gives 100%% of {name} and %d or %(k)s \\$ {} $$ ${var}\n\n- item $1\n\n> `$code` <b>$</b>\n",
    "inline-kinds": ("# Contact <http://a.example> and <me@example.com>\n\nPlease write to <support@example.com> or see <https://example.com/x> for `code`, *em*, **strong**, "
                     "[link](/u \"t\"), ![img](/i.png), <b>raw</b>, &amp; &#35; \\* escaped, [ref] and ~~strike~~  \nhard break\\\nbackslash break\n#hashtag line\n\n"
                     "- item <you@example.org> and `c`\n\n> quote <mailto:x@y.z> *e*\n\nSetext <a@b.co>\n---\n\n[ref]: /r\n").encode("utf-8"),
    "bom": "\ufeff#  Title\n\nSome text with an accent: caf\u00e9.".encode("utf-8"),
    "url-fragments": b"# T\n\nPoint your browser at http://`hostname`:8080/admin\n\nmirror ftp://*yours*/pub and https://\n\nstarts with http://\n",
    "no-final-newline": b"# T\n\nlast line without newline   ",
    "crlf": b"# T\r\n\r\nSome text.   \r\n\r\n- a\r\n- b\r\n",
    "crlf-setext": b"Title\r\n=====\r\n\r\ntext   \r\n",
    "crlf-pragma": b"# T\r\n\r\n<!-- pyml disable-next-line md010-->\r\na\ttab\r\n>\r\n> q\r\n",
    "lone-cr": b"# T\n\ntext with\rlone cr   \n\r",
    "non-ascii": "# Tïtle ü\n\nTëxt with þ thorn, 艨 cjk and emoji \U0001F600   \n".encode("utf-8"),
    "separators": "# T\n\npara\x0c# not a heading\nfs\x1c# x\nnel\x85# y\nls # z\n".encode("utf-8"),
    "tabs": b"# T\n\n-\titem\n\n\tcode\n",
    "only-newlines": b"\n\n\n",
    "long": b"# T\n\n" + b"word " * 30 + b"\n",
}
SELECTIONS = [
    ("default", [], []),
    ("minus", ["-d", "md013,md009"], [("disable", "md013"), ("disable", "md009")]),
    ("plus", ["-e", "md002,md006"], [("enable", "md002"), ("enable", "md006")]),
    ("alias", ["-d", "line-length", "-e", "ul-start-left"], [("disable", "line-length"), ("enable", "ul-start-left")]),
]


def _canon_cli(out, err, name):
    fl = []
    for f in obs.parse_failures(out):
        fl.append((f[1], f[2], f[3], f[4]) if f[0] != "?" else ("?", f[4].replace(name, "DOC")))
    pe = sorted(l.replace(name, "DOC").split("DOC:", 1)[-1] for l in err.splitlines() if "INLINE:" in l)
    return {"failures": sorted(fl, key=str), "pragma": pe}


def _canon_api(res):
    fl = [(f.line_number, f.column_number, f.rule_id, "%s%s (%s)" % (f.rule_description, f.extra_error_information or "", f.rule_name))
          for f in res.scan_failures]
    pe = sorted("%d:1: INLINE: %s" % (p.line_number, p.pragma_error) for p in res.pragma_errors)
    return {"failures": sorted(fl, key=str), "pragma": pe}


def _text(b):
    return io.TextIOWrapper(io.BytesIO(b), encoding="utf-8", newline=None).read()


def _api(sel):
    from pymarkdown.api import PyMarkdownApi
    api = PyMarkdownApi()
    for what, ident in sel:
        api = api.disable_rule_by_identifier(ident) if what == "disable" else api.enable_rule_by_identifier(ident)
    return api


def _doc(job):
    name, data = job
    from pymarkdown.api import PyMarkdownApiException
    evs = []
    try:
        text = data.decode("utf-8")
    except UnicodeDecodeError:
        return evs
    for sname, cli, sel in SELECTIONS:
        key = "scan/" + sname
        o = runs.execute([("doc.md", data)], cli + ["scan", "doc.md"], keep_contents=False)
        evs.append((key, "cli-scan-file", _canon_cli(o["out"], o["err"], "doc.md") if not o["exc"] and o["code"] in (0, 1) else {"failed": o["code"], "err": o["err"][-100:]}))
        o = runs.execute([], cli + ["scan-stdin"], stdin_bytes=data, keep_contents=False)
        evs.append((key, "cli-scan-stdin", _canon_cli(o["out"], o["err"], "stdin") if not o["exc"] and o["code"] in (0, 1) else {"failed": o["code"], "err": o["err"][-100:]}))
        d = tempfile.mkdtemp(prefix="vha-", dir="/dev/shm" if os.path.isdir("/dev/shm") else None)
        old = os.getcwd()
        try:
            os.chdir(d)
            with open("doc.md", "wb") as f:
                f.write(data)
            try:
                evs.append((key, "api-scan-path", _canon_api(_api(sel).scan_path("doc.md"))))
            except PyMarkdownApiException as ex:
                evs.append((key, "api-scan-path", {"failed": 1, "err": str(ex)[-100:]}))
            if text:
                try:
                    if text.strip():            # the API refuses blank strings as an argument error: no observation
                        evs.append((key, "api-scan-string", _canon_api(_api(sel).scan_string(text))))
                except PyMarkdownApiException as ex:
                    evs.append((key, "api-scan-string", {"failed": 1, "err": str(ex)[-100:]}))
            # fix
            key = "fix/" + sname
            o = runs.execute([("doc.md", data)], cli + ["fix", "doc.md"])
            fixed = o["contents"].get("doc.md", b"")
            ok = not o["exc"] and o["code"] in (0, 3)
            evs.append((key, "cli-fix-file", {"text": _text(fixed), "fixed": o["code"] == 3} if ok else {"failed": o["code"]}))
            with open("doc.md", "wb") as f:
                f.write(data)
            try:
                r = _api(sel).fix_path("doc.md")
                with open("doc.md", "rb") as f:
                    evs.append((key, "api-fix-path", {"text": _text(f.read()), "fixed": bool(r.files_fixed)}))
            except PyMarkdownApiException as ex:
                evs.append((key, "api-fix-path", {"failed": 1}))
            if text:
                try:
                    if text.strip():
                        r = _api(sel).fix_string(text)
                        evs.append((key, "api-fix-string", {"text": r.fixed_file, "fixed": bool(r.was_fixed)}))
                except PyMarkdownApiException as ex:
                    evs.append((key, "api-fix-string", {"failed": 1}))
        finally:
            os.chdir(old)
            shutil.rmtree(d, ignore_errors=True)
    return evs


DIAG = [[]] + [lv + st + lf for lv in ([], ["--log-level", "CRITICAL"], ["--log-level", "ERROR"], ["--log-level", "WARNING"], ["--log-level", "INFO"], ["--log-level", "DEBUG"])
               for st in ([], ["--stack-trace"]) for lf in ([], ["--log-file", "run.log"]) if lv or st or lf]


DIR_FILES = [("a_first.md", b"# A\n\n<!-- pyml disable-next-line line-length-->\n" + b"word " * 25 + b"\n\n<!-- pyml disable-num-lines 3 md009-->\ntext   \n"),
             ("b_second.md", b"# B\n\ntext\n" + b"word " * 25 + b"\n\nmore   \n"),
             ("c_third.md", b"no heading first\n\n* a\n+ b\n\n---\n\n***\n")]


def _dir_case(_job):
    """the files of a directory through `scan dir`, `scan a b c`, api.scan_path(dir): what is said about each file equals its solo scan"""
    import tempfile
    import shutil
    from pymarkdown.api import PyMarkdownApi
    out = {}
    solo = {}
    for n, d in DIR_FILES:
        o = runs.execute([("docs/" + n, d)], ["scan", "docs/" + n], keep_contents=False)
        solo[n] = sorted((f[1], f[2], f[3]) for f in obs.parse_failures(o["out"]))
    files = [("docs/" + n, d) for n, d in DIR_FILES]
    for label, argv in (("scan-dir", ["scan", "docs"]), ("scan-files", ["scan"] + ["docs/" + n for n, _ in DIR_FILES])):
        o = runs.execute(files, argv, keep_contents=False)
        per = {}
        for f in obs.parse_failures(o["out"]):
            per.setdefault(os.path.basename(f[0]), []).append((f[1], f[2], f[3]))
        out[label] = {n: sorted(per.get(n, [])) for n, _ in DIR_FILES} if not o["exc"] and o["code"] in (0, 1) else None
    base = tempfile.mkdtemp(prefix="vhd-", dir="/dev/shm" if os.path.isdir("/dev/shm") else None)
    try:
        os.mkdir(os.path.join(base, "docs"))
        for n, d in DIR_FILES:
            with open(os.path.join(base, "docs", n), "wb") as f:
                f.write(d)
        r = PyMarkdownApi().scan_path(os.path.join(base, "docs"))
        per = {}
        for f in r.scan_failures:
            per.setdefault(os.path.basename(f.scan_file), []).append((f.line_number, f.column_number, f.rule_id.upper()))
        out["api-scan-path-dir"] = {n: sorted(per.get(n, [])) for n, _ in DIR_FILES}
    except Exception as ex:  # pylint: disable=broad-except
        out["api-scan-path-dir"] = None
        out["api-error"] = "%s: %s" % (type(ex).__name__, ex)
    finally:
        shutil.rmtree(base, ignore_errors=True)
    return {"solo": solo, "together": out}


def _diag(job):
    name, files, mode, diag, coe = job
    argv = list(diag) + (["--add-plugin", appscen.FAULTY, "--continue-on-error"] if coe else []) + [mode] + [n for n, _ in files]
    o = runs.execute_subprocess(files, [a if a != appscen.FAULTY else appscen.FAULTY for a in argv])
    # diagnostics (log records) legitimately go to stdout: keep the result lines only -- reports and "Fixed:" announcements
    res_lines = [l for l in o["out"].splitlines() if l.startswith("Fixed: ") or obs._LINE.match(l)]
    return {"out": res_lines, "code": o["code"], "exc": o["exc"],
            "contents": {k: obs.h(v.decode("latin-1")) for k, v in o["contents"].items()},
            "created": [c for c in o["created"] if c != "run.log"], "temp_files_left": len(o["left"])}


def run(pid, tier):
    ctx = Ctx(pid, tier, "model_checking")
    r = tlc.run("mc/MC_Obs", "MC_Obs.cfg")
    ctx.ev.add_tlc("MC_Obs (a bound verdict never changes)", r)
    if not r.ok:
        raise Machinery("Obs model violates %s" % r.violated)
    n = 60 if tier == "quick" else 400
    docs = [("shape/" + k, v) for k, v in SHAPES.items()] + [("extra/" + k, v) for k, v in EXTRA.items()]
    docs += [(os.path.relpath(p, impl.REPO), corpus.read(p)) for p in corpus.sample(corpus.rule_docs(), n, seed())]
    res = impl.pmap(_doc, docs, procs=16, chunksize=1)
    traces, vals = [], []
    for (name, _d), evs in zip(docs, res):
        traces.append([{"key": k, "val": obs.h(v), "forbidden": False, "src": s} for k, s, v in evs] or
                      [{"key": "none", "val": "", "forbidden": False, "src": "undecodable"}])
        vals.append(evs)
    # a directory of three files (pragmas in the first) through `scan dir`, `scan a b c` and api.scan_path(dir)
    dc = _dir_case(None)
    for label, per in dc["together"].items():
        if label == "api-error" or per is None:
            continue
        for n, got in per.items():
            if got != dc["solo"][n]:
                ctx.violation("directory-entry-disagrees:%s:%s" % (label, n), {"entry": label, "file": n, "solo": dc["solo"][n][:8], "together": got[:8]})
    ctx.ev.parts["directory_entry_points"] = sorted(k for k in dc["together"] if k != "api-error")
    # diagnostics
    files3 = [("a1.md", appscen.CONTENT["fixable"]), ("a2.md", appscen.CONTENT["perrl"]), ("a3.md", appscen.CONTENT["fix2"]), ("a4.md", appscen.CONTENT["trig"])]
    djobs = []
    dsel = docs[: (8 if tier == "quick" else 60)]
    always = [d for d in docs if d[0].endswith("format-characters")]
    for mode in ("scan", "fix"):
        for diag in DIAG:
            djobs.append(("multi-with-failing-file", files3, mode, diag, True))
            for name, data in always + [d for d in dsel[:: (4 if tier == "quick" else 1)] if d not in always]:
                djobs.append((name, [("doc.md", data)], mode, diag, False))
    dres = impl.pmap(_diag, djobs, procs=16)
    dlogs = {}
    for (name, _f, mode, diag, _c), o in zip(djobs, dres):
        dlogs.setdefault((name, mode), []).append({"key": "result", "val": obs.h(o), "forbidden": False, "src": " ".join(diag) or "(no diagnostics option)", "_o": o})
    dkeys = sorted(dlogs)
    for k in dkeys:
        traces.append([{a: b for a, b in e.items() if a != "_o"} for e in dlogs[k]])
    tr_, verdicts = obs.validate(traces, "c16")
    ctx.ev.add_tlc("Trace_Obs (%d documents x entry points, %d diagnostics groups)" % (len(docs), len(dkeys)), tr_)
    ctx.ev.cov["traces_validated_against_impl"] = len(traces)
    for (name, _d), evs, v in zip(docs, vals, verdicts[:len(docs)]):
        if v["v"] == "ACCEPT":
            continue
        k, s, val = evs[v["pos"] - 1]
        fk, fs, fval = next(e for e in evs if e[0] == k)
        shape = name.split("/")[0] if name.startswith(("shape/", "extra/")) else "corpus"
        ctx.violation("entry-points-disagree:%s:%s-vs-%s:%s" % (k, fs, s, name if shape != "corpus" else "corpus"),
                      {"document": name, "key": k, fs: fval, s: val})
    for k, v in zip(dkeys, verdicts[len(docs):]):
        if v["v"] == "ACCEPT":
            continue
        ev = dlogs[k][v["pos"] - 1]
        opts = ev["src"]
        cls = "+".join(sorted({("stack-trace" if "--stack-trace" in opts else ""), ("log-file" if "--log-file" in opts else ""),
                                ("log-level" if "--log-level" in opts else "")} - {""}))
        ctx.violation("diagnostics-change-result:%s:%s:%s" % (k[1], cls, "multi" if k[0].startswith("multi") else "single"),
                      {"document": k[0], "mode": k[1], "options": opts, "baseline": dlogs[k][0]["_o"], "with_options": ev["_o"]})
    ctx.ev.cov["evaluations"] = sum(len(e) for e in vals) + len(djobs)
    ctx.ev.cov["distinct_nontrivial"] = sum(1 for e in vals if len(e) > 1) + len(dkeys)
    ctx.ev.cov["rule"] = ("documents (line-end / encoding shapes, families, VERIF_SEED sample of rule resources) x 4 rule selections x 7 entry points; "
                          "CLI scan/fix under %d diagnostics option sets; non-trivial = documents observed through more than one entry point" % len(DIAG))
    ctx.ev.sample({"document": docs[0][0], "observations": traces[0][:4]})
    return ctx


def replay(payload):
    import json
    print(json.dumps(payload.get("case"), indent=1)[:3000])
    return 1
