"""C04 / C05 driver -- token streams validated against MdTokens (nesting) and MdPos (positions) by Trace_MdTokens."""
from .. import docspace, impl, psweep, tlc, tracev
from ..ctx import Ctx, Machinery
from ..evidence import seed

NEST = {"close-on-empty", "close-not-innermost", "end-token-refers-to-other-start", "li-outside-list", "class-nesting", "left-open"}
POS = {"position-out-of-range", "position-not-on-opener", "block-order"}


def _one(item):
    name, text = item
    a = psweep.analyse(text, want=("events",))
    if a["exc"]:
        return None
    return a["events"]


def collect(ctx, tier, which):
    r = tlc.run("mc/MC_MdTokens", "MC_MdTokens.cfg")
    ctx.ev.add_tlc("MC_MdTokens (the guards keep the stack well nested)", r)
    if not r.ok:
        raise Machinery("MdTokens: %s violated" % r.violated)
    docs = [("", t) for t, _rec in docspace.model_docs(ctx, tier)] + docspace.other_docs(tier, seed())
    res = impl.pmap(_one, docs, procs=16, chunksize=200)
    keep = [(d, e) for d, e in zip(docs, res) if e is not None]
    ctx.ev.parts["documents_that_do_not_parse"] = len(docs) - len(keep)
    # one position fault hides the nesting faults behind it and vice versa: validate each aspect on its own copy
    traces = []
    for (_n, _t), evs in keep:
        if which == "nest":
            traces.append([dict(e, pos=False) for e in evs])
        else:
            traces.append(evs)
    chunks = [traces[i:i + 20000] for i in range(0, len(traces), 20000)]
    verdicts = []
    for ci, ch in enumerate(chunks):
        tr_, v = tracev.validate("trace/Trace_MdTokens", "Trace_MdTokens.cfg", ch, "tok%d" % ci)
        ctx.ev.add_tlc("Trace_MdTokens (%d token streams)" % len(ch), tr_)
        verdicts += v
    ctx.ev.cov["traces_validated_against_impl"] = len(traces)
    ctx.ev.cov["evaluations"] = len(docs)
    return keep, traces, verdicts


def run(pid, tier):
    ctx = Ctx(pid, tier, "model_checking")
    keep, traces, verdicts = collect(ctx, tier, "nest")
    nontriv = 0
    for ((name, text), evs), v in zip(keep, verdicts):
        if any(e["k"] == "open" for e in evs):
            nontriv += 1
        if v["v"] == "ACCEPT":
            continue
        ctx.violation("%s:%s-in-%s :: %s" % (v["what"], v.get("n"), v.get("scope"), name or psweep.doc_shape(text)),
                      {"document": text, "verdict": v, "tokens_around": [(e["k"], e["n"]) for e in evs[max(0, v["pos"] - 4):v["pos"] + 1]]})
    ctx.ev.cov["distinct_nontrivial"] = nontriv
    ctx.ev.cov["rule"] = ("token streams of every document TLC enumerates from MdBlocks and of the fixed generated / systematic / repository pools; "
                          "non-trivial = streams with at least one start/end pair")
    ctx.ev.sample({"document": keep[len(keep) // 2][0][1], "events": [(e["k"], e["n"], e["c"]) for e in keep[len(keep) // 2][1][:8]]})
    return ctx


def replay(payload):
    c = payload.get("case", {})
    text = c.get("document", "")
    print(repr(text))
    for t in impl.parse(text):
        print("  ", t)
    return 1
