"""C18 -- exit codes follow the documented table in both schemes; errors are never masked."""
from ..ctx import Ctx
from . import appcommon


def run(pid, tier):
    ctx = Ctx(pid, tier, "model_checking")
    appcommon.model_check(ctx)
    cfg = "MC_AppScen_quick.cfg" if tier == "quick" else "MC_AppScen_thorough.cfg"
    scen, obs, traces = appcommon.run_scenarios(ctx, cfg, lambda s: True, {"C18"})
    appcommon.validate(ctx, scen, obs, traces, {"C18"}, appcommon.classify_reject)
    # every command line the repository's own tests drive, validated step by step against the same specification
    appcommon.suite_traces(ctx, tier, {"C18"})
    ctx.ev.cov["rule"] = ("every scenario printed by TLC for MC_AppScen (command x scheme selection x configuration state x "
                          "continue-on-error x sequence of file kinds); distinct = distinct scenario tuples; all are non-trivial "
                          "(each reaches the exit action through a different path or table entry)")
    ctx.ev.cov["exhaustive"] = True
    ctx.ev.assumptions += ["file kinds are realised by one representative document each",
                           "plugin and parser failures are injected by the harness's faulty plugin / parser seam"]
    return ctx
replay = appcommon.replay
