"""C20 -- extensions are inert unless enabled and needed; front matter only shifts lines.

spec/Ext.tla: Parse(S, d) = Parse(S cap Trig(d), d).  For each document the harness parses under all 64 subsets S of
the six extensions; Trig(d) is computed by the harness from the documented trigger syntax of each extension; every
observation is logged with key = S cap Trig(d) and value = the token stream, and TLC (Trace_Obs) accepts the log iff
observations with the same effective set agree (MC_Ext shows this grouping is a consequence of Inert).  With every
extension off, documents full of extension syntax must render like plain CommonMark (markdown-it 'commonmark').
Front matter: tokens(d) = <<front-matter token>> + tokens(rest) shifted by the block length for valid blocks; for
invalid / unclosed blocks the parse with the extension on equals the parse with it off."""
import itertools
import re

from .. import canon, docgen, docspace, impl, obs, tlc
from ..ctx import Ctx, Machinery
from ..evidence import seed

EXTS = ["front-matter", "markdown-strikethrough", "markdown-task-list-items", "markdown-extended-autolinks", "markdown-disallow-raw-html", "linter-pragmas"]
SHORT = {"front-matter": "fm", "markdown-strikethrough": "st", "markdown-task-list-items": "tl", "markdown-extended-autolinks": "al",
         "markdown-disallow-raw-html": "rh", "linter-pragmas": "pr"}
DISALLOWED = ("title", "textarea", "style", "xmp", "iframe", "noembed", "noframes", "script", "plaintext")

TRIGGER_DOCS = {
    "strike": "a ~~struck~~ b ~single~ and ~~~ x\n",
    "strike-in-list": "- ~~a~~\n- b ~~c\n  d~~\n",
    "tasks": "- [ ] open\n- [x] done\n- [X] upper\n* [] none\n1. [ ] ordered\n",
    "tasks-nested": "> - [ ] in quote\n>   - [x] nested\n",
    "autolinks": "see www.example.com and https://example.com/a?b=c. also user@example.com and http://x.y)\n",
    "autolinks-edge": "www.a_b.c www.example.com/path(with)parens) xmpp:foo@bar.baz mailto:a@b.c\n",
    "autolink-schemes-in-blocks": "# Chat at xmpp:foo@bar.baz/txt\n\n- mail mailto:me@example.com now\n\n> see ftp://files.example.com/x and http://example.com.\n",
    "rawhtml": "<script>alert(1)</script> and <title>t</title> <b>ok</b>\n\n<textarea>\nblock\n</textarea>\n",
    "rawhtml-inline": "text <iframe src='x'> and <xmp> and <plaintext> and <STYLE>\n",
    "front-ok": "---\ntitle: doc\nauthor: me\n---\n\n# Heading\n\ntext   \n",
    "front-then-hr": "---\na: b\n---\n---\n\npara\n",
    "front-unclosed": "---\ntitle: doc\n\n# Heading\n",
    "front-not-yaml": "---\nnot a mapping\n---\n\ntext\n",
    "front-indented": "---\ntitle: |\n  block\n  ---\n  more\n---\n\n# H\n",
    "front-empty": "---\n---\n\ntext\n",
    "front-late": "text\n---\ntitle: x\n---\n",
    "front-yaml-alias": "---\ntitle: Release notes\nversion: *current\n---\n\n# Release notes\n",
    "front-yaml-tag": "---\ntitle: !include title.txt\n---\n\n# Heading\n",
    "front-yaml-dupkey": "---\ntitle: a\ntitle: b\n---\n\n# Heading\n",
    "front-yaml-list": "---\n- a\n- b\n---\n\ntext\n",
    "front-yaml-tab": "---\ntitle:\tx\n---\n\ntext\n",
    "pragma": "# T\n\n<!-- pyml disable-next-line md013-->\nline\n",
    "pragma-and-strike": "<!-- pyml disable-num-lines 2 md009-->\n~~x~~   \nwww.example.com\n",
    "mixed": "---\nt: v\n---\n- [ ] ~~task~~ www.example.com <script>x</script>\n<!-- pyml disable-next-line md033-->\n<title>x</title>\n",
}


def trig(text):
    """which extensions' trigger syntax occurs in the document (documented triggers; deliberately generous: a false
    'triggered' only removes an observation from the comparison, it can never cause an alarm)"""
    t = set()
    lines = text.split("\n")
    if lines and lines[0].rstrip() == "---":
        t.add("front-matter")
    if "~" in text:
        t.add("markdown-strikethrough")
    if re.search(r"\[[ xX]?\]", text):
        t.add("markdown-task-list-items")
    if re.search(r"(?i)www\.|https?://|ftp://|@|xmpp:|mailto:", text):
        t.add("markdown-extended-autolinks")
    if re.search(r"(?i)<\s*/?\s*(%s)" % "|".join(DISALLOWED), text):
        t.add("markdown-disallow-raw-html")
    if re.search(r"(?im)^<!--", text):
        t.add("linter-pragmas")
    return t


_TK = {}


def _tk(subset):
    key = tuple(sorted(subset))
    if key not in _TK:
        cfg = {e: {"enabled": e in subset} for e in EXTS}
        _TK[key] = impl.tokenizer(cfg)
    return _TK[key]


def _tok_sig(toks):
    return [str(t) for t in toks]


# documents with extension syntax that make the pinned parser fail: parsed with the SAME tokenizer just before some of the
# observations, so that state an extension leaves behind after a failed parse shows up as a non-inert extension
POISON = ["<!-- pyml disable-num-lines 9 md013,md009,md010-->\n\n>>- one\n>>\n  >  >   two\n",
          "<!-- pyml disable-next-line md041-->\n~~a~~ www.a.bc\n-\t\n",
          "---\nk: v\n---\n<!-- pyml disable-next-line md041-->\n- [ ] x\n   -\t    a\n"]


def _doc(job):
    name, text, subsets = job
    out = []
    tg = trig(text)
    import zlib
    hk = zlib.crc32(text.encode("utf-8"))
    for si, S in enumerate(subsets):
        if (hk + si) % 3 == 0:
            impl.parse(POISON[(hk + si) // 3 % len(POISON)], tk=_tk(S), timeout=3)
        r = impl.parse(text, tk=_tk(S), timeout=3)
        if isinstance(r, tuple) and r and r[0] == "EXC":
            out.append((S, "EXC:%s@%s" % (r[1], r[3] if len(r) > 3 else ""), None))
        else:
            html = None
            if not S:
                try:
                    html = canon.freeze(canon.from_html(impl.to_html([t for t in r if not t.is_pragma])))
                except Exception as ex:  # pylint: disable=broad-except
                    html = "HTML-EXC"
            out.append((S, _tok_sig(r), html))
    # front matter relation
    fm = None
    lines = text.split("\n")
    if lines and lines[0].rstrip() == "---":
        on = impl.parse(text, tk=_tk(("front-matter", "linter-pragmas")), timeout=3)
        off = impl.parse(text, tk=_tk(("linter-pragmas",)), timeout=3)
        if not (isinstance(on, tuple) and on and on[0] == "EXC") and not (isinstance(off, tuple) and off and off[0] == "EXC"):
            if on and on[0].token_name == "front-matter":
                # block length: lines up to and including the closing fence recorded by the token
                ftxt = str(on[0])
                end = next((i for i in range(1, len(lines)) if lines[i].rstrip() == "---" and not lines[i].startswith((" ", "\t"))), None)
                if end is not None:
                    n = end + 1
                    rest = "\n".join(lines[n:])
                    rr = impl.parse(rest, tk=_tk(("linter-pragmas",)), timeout=3)
                    if not (isinstance(rr, tuple) and rr and rr[0] == "EXC"):
                        exp = [(t.token_name, t.line_number + n if t.line_number else 0, t.column_number) for t in rr if not t.is_pragma]
                        got = [(t.token_name, t.line_number, t.column_number) for t in on[1:] if not t.is_pragma]
                        fm = {"kind": "valid", "n": n, "same": exp == got,
                              "first": next(((a, b) for a, b in zip(exp, got) if a != b), (len(exp), len(got))) if exp != got else None}
                else:
                    fm = {"kind": "token-without-closing-fence"}
            else:
                fm = {"kind": "not-a-block", "same": _tok_sig(on) == _tok_sig(off)}
    mdit = None
    try:
        mdit = canon.freeze(canon.from_mdit(text))
    except Exception:  # pylint: disable=broad-except
        mdit = "MDIT-EXC"
    return {"trig": sorted(tg), "obs": out, "fm": fm, "mdit": mdit}


def run(pid, tier):
    ctx = Ctx(pid, tier, "model_checking")
    r = tlc.run("mc/MC_Ext", "MC_Ext.cfg")
    ctx.ev.add_tlc("MC_Ext (Inert implies: same effective set, same parse)", r)
    if not r.ok:
        raise Machinery("Ext: %s violated" % r.violated)
    subsets = [tuple(c) for n in range(len(EXTS) + 1) for c in itertools.combinations(EXTS, n)]
    docs = [("trigger/" + k, v) for k, v in TRIGGER_DOCS.items()]
    md = docspace.model_docs(ctx, tier)
    step = 60 if tier == "quick" else 12                 # hash-selected: quick's choice is a subset of thorough's
    import zlib
    docs += [("", t) for t, _r in md if zlib.crc32(t.encode()) % step == 0]
    docs += docgen.documents(150 if tier == "quick" else 1500, seed(), pool=1500)
    # documents of the model space with extension syntax injected as the text
    inj = ["~~a~~", "[ ] a", "www.a.bc", "<script>", "a@b.cd"]
    base = [t for t, _r in md if "a" in t and zlib.crc32(t.encode()) % (step * 4) == 0]
    for t in base:
        hk = zlib.crc32(t.encode())
        for f in (inj if tier == "thorough" else [inj[hk // 7 % len(inj)]]):
            docs.append(("", t.replace("a", f, 1)))
            if t.startswith(("a", "#")) and f == "~~a~~":
                docs.append(("", "---\nk: v\n---\n" + t))
    jobs = []
    for name, text in docs:
        ss = subsets if (tier == "thorough" or name.startswith("trigger/")) else [s for k, s in enumerate(subsets) if k in (0, 63) or (zlib.crc32(text.encode()) + k) % 8 == 0]
        jobs.append((name, text, ss))
    res = impl.pmap(_doc, jobs, procs=16, chunksize=20)
    traces, meta = [], []
    plain_checked = 0
    for (name, text, ss), o in zip(jobs, res):
        tg = set(o["trig"])
        tr = []
        if any(isinstance(val, str) and val.startswith("EXC:") for _S, val, _h in o["obs"]):
            plain = next((val for S_, val, _h in o["obs"] if not S_), None)
            if plain is not None and not (isinstance(plain, str) and plain.startswith("EXC:")):
                bad = sorted("+".join(SHORT[e] for e in S_) for S_, val, _h in o["obs"] if isinstance(val, str) and val.startswith("EXC:"))
                ctx.violation("extension-makes-parse-fail :: %s" % (name or psw(text)), {"document": text, "fails_with": bad[:6]})
            ctx.ev.parts["documents_that_do_not_parse"] = ctx.ev.parts.get("documents_that_do_not_parse", 0) + 1
            continue                # does not parse at all: C01's business
        for S, val, _h in o["obs"]:
            eff = sorted(set(S) & tg)
            tr.append({"key": "+".join(SHORT[e] for e in eff) or "none", "val": obs.h(val), "forbidden": False, "src": "+".join(SHORT[e] for e in S) or "none"})
        traces.append(tr)
        meta.append((name, text, o))
        # all extensions off: plain CommonMark even with extension syntax (corroborated by markdown-it on the structure)
        off = next((x for x in o["obs"] if not x[0]), None)
        if off and off[2] is not None and not isinstance(off[2], str) and not isinstance(o["mdit"], str) and tg - {"front-matter"} and "<" not in text and name.startswith("trigger/"):
            plain_checked += 1
            # structural differences are C03's business; here only the rendering of the extension syntax itself is judged
            if psk(off[2]) == psk(o["mdit"]) and off[2] != o["mdit"] and _norm_tree(off[2]) != _norm_tree(o["mdit"]):
                ctx.violation("all-off-is-not-plain-commonmark:%s :: %s" % ("+".join(sorted(SHORT[e] for e in tg)), name or psw(text)),
                              {"document": text, "implementation": off[2], "markdown_it": o["mdit"]})
        fm = o["fm"]
        if fm:
            if fm["kind"] == "valid" and not fm["same"]:
                ctx.violation("front-matter-changes-the-rest :: %s" % (name or psw(text)), {"document": text, "block_lines": fm["n"], "first_difference": fm["first"]})
            elif fm["kind"] == "not-a-block" and not fm["same"]:
                ctx.violation("invalid-front-matter-changes-parse :: %s" % (name or psw(text)), {"document": text})
            elif fm["kind"] == "token-without-closing-fence":
                ctx.violation("front-matter-token-without-closed-block :: %s" % (name or psw(text)), {"document": text})
    tr_, verdicts = obs.validate(traces, "c20")
    ctx.ev.add_tlc("Trace_Obs (%d documents x extension subsets)" % len(traces), tr_)
    ctx.ev.cov["traces_validated_against_impl"] = len(traces)
    nontriv = 0
    for (name, text, o), t, v in zip(meta, traces, verdicts):
        if o["trig"]:
            nontriv += 1
        if v["v"] == "ACCEPT":
            continue
        first = next(e for e in t if e["key"] == v["key"])
        diff = sorted(set(v["src"].split("+")) ^ set(first["src"].split("+")))
        # which subsets disagree depends on the subset sample: it goes into the detail, not into the signature
        ctx.violation("extension-not-inert :: %s" % (name or psw(text)),
                      {"document": text, "effective_set": v["key"], "enabled_a": first["src"], "enabled_b": v["src"], "trigger_syntax_of": o["trig"]})
    ctx.ev.cov["evaluations"] = sum(len(j[2]) for j in jobs)
    ctx.ev.cov["distinct_nontrivial"] = nontriv
    ctx.ev.parts["documents_checked_against_plain_commonmark"] = plain_checked
    ctx.ev.cov["rule"] = ("documents (trigger families, MdBlocks model documents plain and with extension syntax injected, generated pool) x subsets of the six "
                          "extensions (all 64 for the trigger families and in thorough; 10 in quick); non-trivial = documents containing some trigger syntax")
    ctx.ev.sample({"document": jobs[0][1], "trigger_syntax_of": res[0]["trig"], "observations": traces[0][:4]})
    return ctx


def _norm_tree(tree):
    """text of the tree with insignificant whitespace differences removed"""
    import re
    return re.sub(r"[ \t]*\n[ \t]*", "\n", repr(tree).replace("\\t", " "))


def psk(tree):
    from .. import psweep
    return psweep.kinds(tree)


def psw(text):
    from .. import psweep
    return psweep.doc_shape(text)


def replay(payload):
    c = payload.get("case", {})
    print(repr(c.get("document")))
    print({k: v for k, v in c.items() if k != "document"})
    return 1
