"""C06 -- rule verdicts match the documented condition, no more and no less.

spec/Rules.tla transcribes the documented trigger condition of each judged rule as a TLA+ operator over line facts and
block facts that are computed WITHOUT the implementation (the file's text and the vendored markdown-it-py); TLC
(Trace_Rules) evaluates the condition for each (document, rule, configuration) and compares the set of lines with the
set the implementation reported.  Judged only on documents whose block structure the implementation parses like
markdown-it (precondition C03).  Configurations: each rule's default and the documented values of its items."""
import os
import zlib

from .. import canon, corpus, docgen, impl, obs, psweep, rulefacts, runs, tlc, tracev
from ..ctx import Ctx, Machinery
from ..evidence import seed
from .c09 import EXTRA_DOCS
from .c12 import EXTRA

# rule -> list of (configuration name, --set arguments, cfg record for the model)
CONFIGS = {
    "MD009": [("default", [], {"br_spaces": 2, "strict": False}),
              ("br_spaces=3", ["plugins.md009.br_spaces=$#3"], {"br_spaces": 3, "strict": False}),
              ("br_spaces=0", ["plugins.md009.br_spaces=$#0"], {"br_spaces": 0, "strict": False}),
              ("strict", ["plugins.md009.strict=$!True"], {"br_spaces": 2, "strict": True})],
    "MD010": [("default", [], {"code_blocks": True}), ("code_blocks=false", ["plugins.md010.code_blocks=$!False"], {"code_blocks": False})],
    "MD012": [("default", [], {"maximum": 1}), ("maximum=2", ["plugins.md012.maximum=$#2"], {"maximum": 2})],
    "MD013": [("default", [], {"line_length": 80, "heading_line_length": 80, "code_block_line_length": 80, "headings": True, "code_blocks": True, "strict": False}),
              ("line_length=40", ["plugins.md013.line_length=$#40"], {"line_length": 40, "heading_line_length": 80, "code_block_line_length": 80, "headings": True, "code_blocks": True, "strict": False}),
              ("heading=30", ["plugins.md013.heading_line_length=$#30"], {"line_length": 80, "heading_line_length": 30, "code_block_line_length": 80, "headings": True, "code_blocks": True, "strict": False}),
              ("code=20", ["plugins.md013.code_block_line_length=$#20"], {"line_length": 80, "heading_line_length": 80, "code_block_line_length": 20, "headings": True, "code_blocks": True, "strict": False}),
              ("no-code,heading=30", ["plugins.md013.code_blocks=$!False", "plugins.md013.heading_line_length=$#30"],
               {"line_length": 80, "heading_line_length": 30, "code_block_line_length": 80, "headings": True, "code_blocks": False, "strict": False}),
              ("no-headings,code=20", ["plugins.md013.headings=$!False", "plugins.md013.code_block_line_length=$#20"],
               {"line_length": 80, "heading_line_length": 80, "code_block_line_length": 20, "headings": False, "code_blocks": True, "strict": False}),
              ("strict,40", ["plugins.md013.strict=$!True", "plugins.md013.line_length=$#40", "plugins.md013.heading_line_length=$#40", "plugins.md013.code_block_line_length=$#40"],
               {"line_length": 40, "heading_line_length": 40, "code_block_line_length": 40, "headings": True, "code_blocks": True, "strict": True})],
    "MD047": [("default", [], {})],
    "MD001": [("default", [], {})],
    "MD025": [("default", [], {"level": 1}), ("level=2", ["plugins.md025.level=$#2"], {"level": 2})],
    "MD040": [("default", [], {})],
    "MD048": [("default", [], {"style": "consistent"}), ("backtick", ["plugins.md048.style=backtick"], {"style": "`"}), ("tilde", ["plugins.md048.style=tilde"], {"style": "~"})],
    "MD046": [("default", [], {"style": "consistent"}), ("fenced", ["plugins.md046.style=fenced"], {"style": "fenced"}), ("indented", ["plugins.md046.style=indented"], {"style": "indented"})],
    "MD035": [("default", [], {"style": "consistent"}), ("***", ["plugins.md035.style=***"], {"style": "***"})],
    "MD019": [("default", [], {})],
    "MD003": [("default", [], {"style": "consistent"}), ("atx", ["plugins.md003.style=atx"], {"style": "atx"}),
              ("atx_closed", ["plugins.md003.style=atx_closed"], {"style": "atx_closed"}), ("setext", ["plugins.md003.style=setext"], {"style": "setext"})],
    "MD024": [("default", [], {"siblings_only": False}), ("siblings_only", ["plugins.md024.siblings_only=$!True"], {"siblings_only": True})],
    "MD026": [("default", [], {"punctuation": list(".,;:!。，；：！")}), ("qmark", ["plugins.md026.punctuation=?!"], {"punctuation": list("?!")})],
    "MD041": [("default", [], {"level": 1}), ("level=2", ["plugins.md041.level=$#2"], {"level": 2})],
    "MD022": [("default", [], {})],
    "MD023": [("default", [], {})],
    "MD004": [("default", [], {"style": "consistent"}), ("dash", ["plugins.md004.style=dash"], {"style": "dash"}), ("asterisk", ["plugins.md004.style=asterisk"], {"style": "asterisk"}),
              ("plus", ["plugins.md004.style=plus"], {"style": "plus"}), ("sublist", ["plugins.md004.style=sublist"], {"style": "sublist"})],
    "MD018": [("default", [], {})],
    "MD031": [("default", [], {})],
    "MD032": [("default", [], {})],
    "MD042": [("default", [], {})],
    "MD045": [("default", [], {})],
}
FAMILIES = {
    "headings-long": "# " + "word " * 9 + "end\n\n## " + "word " * 12 + "\n\ntext\n\nSetext heading that is quite long indeed here\n===\n\n" + "w" * 85 + "\n",
    "code-long": "# T\n\n```text\n" + "code " * 10 + "\n" + "x" * 30 + "\n```\n\n    " + "indented " * 5 + "\n\n" + "text " * 20 + "\n",
    "fences-mixed": "# T\n\n~~~text\na\n~~~\n\n```text\nb\n```\n\n```\nc\n```\n\n    indented\n",
    "hr-mixed": "# T\n\n---\n\n***\n\n- - -\n\n---\n",
    "blanks": "# T\n\n\ntext \n\n\n\n```text\n\n\n\n```\n\n\n",
    "tabs": "# T\n\n\ttab code\n\n```text\n\ttab in fence\n```\n\ntext\twith tab\t\n",
    "changelog": "# Change log\n\n## 1.0.0\n\n### Fixed\n\n### Features\n\n## 2.0.0\n\n### Features\n\n## 1.0.0\n\n# Overview\n\n## Details\n\n# Overview\n",
    "levels": "# T\n\n### skip\n\n#### ok\n\n## back\n\n##### skip again\n\n# second top\n",
    "atx-spacing": "#  two\n\n##\ttab\n\n###   three ###\n\n #  indented two\n\n> ##  in quote\n",
    "nofinal": "# T\n\nlast line",
    "trailing": "# T \n\ntext  \nmore   \n\n- item \n  \n  cont\n\n    code   \n",
    "ul-markers": "# T\n\n+ a\n+ b\n\ntext\n\n- c\n  * d\n  * e\n\ntext\n\n* f\n  + g\n",
    "missing-space": "# T\n\n#Heading\n\n##Two words\n\n####### seven\n\n#######Seven\n\ntext\n#Inside\n\n> #Quote\n\n- #Item\n\n#Closed#\n\n#Em *x*\n",
    "fence-blanks": "# T\n\ntext\n```text\na\n```\nmore\n\n```text\nb\n```\n\ntext\n\n```text\nc\n```\n# H\n",
    "list-blanks": "# T\n\ntext\n- a\n- b\n\ntext\n\n1. x\n2. y\n# H\n\n- c\n\ntext\n* d\n",
    "links": "# T\n\n[empty]() and [frag](#) and [ok](/a) and [ok2](#x)\n\n![img]() ![](/u) ![ ](/v) ![alt](/w)\nnext [e]( ) line\n\n[ref][r] ![][r]\n\n[r]: /url\n",
}


PREFIX_DOCS = [b"# P\n\n~~~text\na\n~~~\n\n***\n\n    indented\n", b"# P\n\n    indented first\n\n```text\nb\n```\n\n---\n\n- - -\n"]


# rules whose documented condition does not mention the container a construct sits in: the same document inside a block quote
# must get the same lines reported (metamorphic twin; shrinks the "undecided inside containers" regions of the verdict operators)
TWIN_RULES = ("MD001", "MD003", "MD004", "MD018", "MD019", "MD022", "MD024", "MD025", "MD026", "MD031", "MD032", "MD035", "MD040", "MD042", "MD045",
              "MD046", "MD048")


def _twin(name, text, tree):
    """reports of the twin rules on the document and on the document quoted line by line (same structure one container deeper)"""
    if not text.endswith("\n") or "\t" in text or tree is None:
        return None
    q = "".join(("> " + l if l else ">") + "\n" for l in text[:-1].split("\n"))
    aq = psweep.analyse(q, want=("html",))
    if aq["exc"] or aq.get("tree") != (("bq", tree),):
        return None                               # quoting changed the structure (lazy lines, tabs ...): not a twin
    out = {}
    for doc, key in ((text, "plain"), (q, "quoted")):
        o = runs.execute([("doc.md", doc.encode("utf-8"))], ["scan", "doc.md"], keep_contents=False)
        if o["exc"] or o["code"] not in (0, 1) or "Error" in o["err"].replace("INLINE", ""):
            return None
        out[key] = sorted({(f[3], f[1]) for f in obs.parse_failures(o["out"]) if f[3] in TWIN_RULES})
    return out


def _doc(job):
    name, text, runs_ = job
    a = psweep.analyse(text, want=("html",))
    if a["exc"]:
        return {"skip": "does-not-parse"}
    try:
        mdit = canon.freeze(canon.from_mdit(text))
    except Exception:  # pylint: disable=broad-except
        return {"skip": "renderer-error"}
    if a.get("tree") is None or a["tree"] != mdit:
        return {"skip": "structure-not-agreed"}          # precondition C03
    L, B, I = rulefacts.facts(text)
    out = []
    for rule, cname, setargs, cfg in runs_:
        argv = []
        for s in setargs:
            argv += ["--set", s]
        o = runs.execute([("doc.md", text.encode("utf-8"))], argv + ["scan", "doc.md"], keep_contents=False)
        if o["exc"] or o["code"] not in (0, 1) or "Error" in o["err"].replace("INLINE", ""):
            out.append((rule, cname, None))
            continue
        lines = {f[1] for f in obs.parse_failures(o["out"]) if f[3] == rule}
        if cname == "default" and rule in ("MD048", "MD046", "MD035"):
            # the verdict depends only on the document: the same scan with other documents processed first must say the same
            for pre in PREFIX_DOCS:
                o2 = runs.execute([("a_first.md", pre), ("doc.md", text.encode("utf-8"))], argv + ["scan", "a_first.md", "doc.md"], keep_contents=False)
                if not o2["exc"] and o2["code"] in (0, 1):
                    l2 = {f[1] for f in obs.parse_failures(o2["out"]) if f[3] == rule and f[0] == "doc.md"}
                    if l2 != lines:
                        lines = l2          # judged against the same model verdict: a difference shows up as missed / spurious
                        break
        if rule in ("MD001", "MD025", "MD019", "MD023", "MD003", "MD024", "MD026", "MD022", "MD041"):
            # a rule may name any line of a (setext) heading: compare by the heading's first line
            lines = {next((b["ln"] for b in B if b["k"] == "h" and b["ln"] <= x <= b["endln"]), x) for x in lines}
        out.append((rule, cname, sorted(lines)))
    twin = _twin(name, text, a.get("tree")) if name.startswith(("family/", "extra/", "md")) else None
    return {"L": L, "B": B, "I": I, "obs": out, "twin": twin}


def run(pid, tier):
    ctx = Ctx(pid, tier, "model_checking")
    docs = [("family/" + k, v) for k, v in FAMILIES.items()]
    docs += [("extra/" + k, v.decode("utf-8")) for k, v in list(EXTRA_DOCS.items()) + list(EXTRA.items()) if b"pyml" not in v]
    for p in corpus.rule_docs():
        try:
            t = corpus.read(p).decode("utf-8").replace("\r\n", "\n")
        except UnicodeDecodeError:
            continue
        if "pyml" not in t:
            docs.append((os.path.relpath(p, impl.REPO)[len("test/resources/rules/"):], t))
    docs += [d for d in docgen.documents(300 if tier == "quick" else 2000, seed(), pool=2000) if "pyml" not in d[1]]
    docs += [d for d in docgen.systematic(seed(), 300 if tier == "quick" else 2000, pool=2000)]
    jobs = []
    for name, text in docs:
        hk = zlib.crc32(name.encode())
        rr = []
        for rule, cfgs in sorted(CONFIGS.items()):
            for ci, (cname, setargs, cfg) in enumerate(cfgs):
                own = name.startswith(rule.lower() + "/") or name.startswith("family/")
                if ci == 0 or own or tier == "thorough" or (hk + ci) % 5 == 0:
                    rr.append((rule, cname, setargs, cfg))
        # one scan per distinct --set list
        jobs.append((name, text, rr))
    res = impl.pmap(_doc, jobs, procs=16, chunksize=4)
    traces, meta = [], []
    skips = {}
    for (name, text, rr), o in zip(jobs, res):
        if "skip" in o:
            skips[o["skip"]] = skips.get(o["skip"], 0) + 1
            continue
        for (rule, cname, setargs, cfg), (_r, _c, lines) in zip(rr, o["obs"]):
            if lines is None:
                skips["scan-failed"] = skips.get("scan-failed", 0) + 1
                continue
            traces.append([{"rule": rule, "cfg": cfg or {"none": 0}, "L": o["L"], "B": o["B"], "I": o["I"] if rule in ("MD042", "MD045") else [], "observed": lines}])
            meta.append((name, text, rule, cname))
    twins = 0
    for (name, text, rr), o in zip(jobs, res):
        tw = o.get("twin") if isinstance(o, dict) else None
        if not tw:
            continue
        twins += 1
        if tw["plain"] != tw["quoted"]:
            rules = sorted({r for r, _l in set(tw["plain"]) ^ set(tw["quoted"])})
            ctx.violation("twin-disagrees:%s :: %s" % ("+".join(rules), name), {"document": text[:1200], "plain": tw["plain"], "quoted": tw["quoted"]})
    ctx.ev.parts["quote_twins_compared"] = twins
    verdicts = []
    for ci in range(0, len(traces), 6000):
        tr_, v = tracev.validate("trace/Trace_Rules", "Trace_Rules.cfg", traces[ci:ci + 6000], "c06_%d" % ci)
        ctx.ev.add_tlc("Trace_Rules (%d verdicts)" % len(traces[ci:ci + 6000]), tr_)
        verdicts += v
    ctx.ev.cov["traces_validated_against_impl"] = len(traces)
    nontriv = 0
    for (name, text, rule, cname), t, v in zip(meta, traces, verdicts):
        if t[0]["observed"]:
            nontriv += 1
        if v["v"] == "ACCEPT":
            continue
        ctx.violation("%s:%s:%s :: %s" % (rule, v["what"], cname, name),
                      {"document": text[:1500], "rule": rule, "config": cname, "missed_lines": v.get("missed"), "spurious_lines": v.get("spurious"), "reported": t[0]["observed"]})
    ctx.ev.cov["evaluations"] = len(traces)
    ctx.ev.cov["distinct_nontrivial"] = nontriv
    ctx.ev.parts["documents_not_judged"] = skips
    ctx.ev.parts["rules_judged"] = sorted(CONFIGS)
    ctx.ev.cov["rule"] = ("(document, rule, configuration) triples: rule families, rule resources, fixed generated / systematic pools x %d rules x documented configuration values; "
                          "judged only where the implementation's block structure equals markdown-it's; non-trivial = triples with at least one reported line" % len(CONFIGS))
    if traces:
        ctx.ev.sample({"document": meta[0][0], "rule": meta[0][2], "config": meta[0][3], "reported_lines": traces[0][0]["observed"]})
    return ctx


def replay(payload):
    c = payload.get("case", {})
    print(repr(c.get("document")))
    print({k: v for k, v in c.items() if k != "document"})
    return 1
