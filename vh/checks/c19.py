"""C19 -- file discovery selects exactly the documented set, once each, in sorted order.

spec/Discovery.tla defines Select(tree, arguments, flags); TLC enumerates every (tree, argument list, flags) within
the bounds of the configuration, checks Select's own properties (order independence, idempotence, monotone recursion,
only eligible existing files) and prints each scenario with the selection.  Every scenario is replayed into the real
discovery function on a real directory tree; a seeded sample is replayed through the CLI (`scan -l`, `scan`, `fix`)
and the API (`list_path`), where the surrounding code decides what an error / an empty selection leads to."""
import os
import random
import shutil
import tempfile

from .. import discovery_gen as G
from .. import impl, runs, tlc
from ..ctx import Ctx, Machinery
from ..evidence import seed

DOC = b"# T\n\n" + b"word " * 20 + b"end   \n"      # MD013 (scan prints the name), MD009 (fix rewrites it)


def _mk_tree(tree_ids, base):
    for i in sorted(tree_ids):
        p, isdir = G.ENTRIES[i - 1]
        full = os.path.join(base, p)
        if isdir:
            os.makedirs(full, exist_ok=True)
        else:
            os.makedirs(os.path.dirname(full), exist_ok=True)
            with open(full, "wb") as f:
                f.write(DOC)


def _direct_group(group):
    """All scenarios of one tree against the real discovery function."""
    from pymarkdown.application_file_scanner import ApplicationFileScanner
    tree_ids, scens, pool = group
    base = tempfile.mkdtemp(prefix="vhd-", dir="/dev/shm" if os.path.isdir("/dev/shm") else None)
    old = os.getcwd()
    out = []
    try:
        _mk_tree(tree_ids, base)
        os.chdir(base)
        for sc in scens:
            args = [pool[a - 1] for a in sc["args"]]
            exts = ",".join(G.EXTS[sc["ext"] - 1])
            o, e = [], []
            try:
                files, did_err, _ = ApplicationFileScanner.determine_files_to_scan(args, sc["recurse"], exts, False, o.append, e.append)
                out.append((list(files), bool(did_err), e, None))
            except Exception as ex:  # pylint: disable=broad-except
                out.append(([], False, [], "%s: %s" % (type(ex).__name__, ex)))
    finally:
        os.chdir(old)
        shutil.rmtree(base, ignore_errors=True)
    return out


def _ident(p):
    return os.path.normpath(p)


def _judge(sc, pool, files, did_err, exc):
    """Compare one observation of the discovery function with the specification's selection."""
    args = [pool[a - 1] for a in sc["args"]]
    exp = sorted(G.ENTRIES[i - 1][0] for i in sc["files"])
    shape = _shape(args)
    if exc:
        return "exception:%s" % exc.split(":")[0], {"args": args, "exc": exc}
    if sc["kind"] == "error":
        if not did_err:
            return "error-not-reported:%s" % shape, {"args": args, "selected": files}
        return None
    if did_err:
        return "spurious-error:%s" % shape, {"args": args}
    ids = [_ident(f) for f in files]
    if sorted(set(ids)) != exp:
        return "wrong-selection:%s" % shape, {"args": args, "expected": exp, "observed": files}
    if len(ids) != len(set(ids)):
        return "same-file-twice:%s" % shape, {"args": args, "observed": files}
    if files != sorted(files):
        return "not-sorted:%s" % shape, {"args": args, "observed": files}
    return None


def _shape(args):
    def one(a):
        if "*" in a or "?" in a:
            return "glob"
        if "/../" in a:
            return "dotdot"
        if a.startswith("./"):
            return "dotslash"
        if a.endswith("/"):
            return "trailing-slash"
        if a == ".":
            return "dot"
        if "[" in a:
            return "bracket-name"
        return "plain"
    return "+".join(one(a) for a in args)


def _cli_case(job):
    sc, pool, mode = job
    args = [pool[a - 1] for a in sc["args"]]
    exts = ",".join(G.EXTS[sc["ext"] - 1])
    files = [(G.ENTRIES[i - 1][0], DOC) for i in sc["tree"] if not G.ENTRIES[i - 1][1]]
    dirs = [G.ENTRIES[i - 1][0] for i in sc["tree"] if G.ENTRIES[i - 1][1]]
    if mode == "api":
        return _api_case(sc, args, exts, files, dirs)
    argv = ["-d", "md041,md047"] + (["fix"] if mode == "fix" else ["scan"])
    if mode == "list":
        argv.append("-l")
    if sc["recurse"]:
        argv.append("-r")
    if exts != ".md":
        argv += ["-ae", exts]
    argv += args
    o = runs.execute(files, argv, dirs=dirs, keep_contents=False)
    o.pop("events", None)
    return o


def _api_case(sc, args, exts, files, dirs):
    from pymarkdown.api import PyMarkdownApi, PyMarkdownApiException, PyMarkdownApiNoFilesFoundException
    base = tempfile.mkdtemp(prefix="vhd-", dir="/dev/shm" if os.path.isdir("/dev/shm") else None)
    old = os.getcwd()
    try:
        _mk_tree(sc["tree"], base)
        os.chdir(base)
        try:
            r = PyMarkdownApi().list_path(args[0], recurse_if_directory=sc["recurse"], alternate_extensions=exts if exts != ".md" else "")
            return {"kind": "files", "files": list(r.matching_files)}
        except PyMarkdownApiNoFilesFoundException:
            return {"kind": "nofiles-or-error", "files": []}
        except PyMarkdownApiException as ex:
            return {"kind": "exception", "files": [], "exc": str(ex)[:200]}
    finally:
        os.chdir(old)
        shutil.rmtree(base, ignore_errors=True)


def _judge_cli(sc, pool, mode, o):
    args = [pool[a - 1] for a in sc["args"]]
    exp = sorted(G.ENTRIES[i - 1][0] for i in sc["files"])
    shape = _shape(args)
    if mode == "api":
        if o["kind"] == "exception":
            return "api-exception:%s" % shape, {"args": args, "exc": o.get("exc")}
        if sc["kind"] == "files":
            ids = [_ident(f) for f in o["files"]]
            if sorted(set(ids)) != exp or len(ids) != len(set(ids)) or o["files"] != sorted(o["files"]):
                return "api-wrong-selection:%s" % shape, {"args": args, "expected": exp, "observed": o["files"]}
        elif o["kind"] == "files":
            return "api-selection-instead-of-%s:%s" % (sc["kind"], shape), {"args": args, "observed": o["files"]}
        return None
    if o["exc"]:
        return "cli-exception:%s" % mode, {"args": args, "exc": o["exc"]}
    out_lines = [l for l in o["out"].splitlines() if l.strip()]
    if mode == "list":
        named = out_lines
    elif mode == "scan":
        named = []
        for l in out_lines:
            n = l.split(":")[0]
            if n not in named:
                named.append(n)
    else:
        named = [l[len("Fixed: "):] for l in out_lines if l.startswith("Fixed: ")]
    detail = {"argv": o["argv"], "expected_kind": sc["kind"], "expected": exp, "observed": named, "code": o["code"], "stderr": o["err"][-300:]}
    if sc["kind"] == "error":
        if named or o["changed"]:
            first_ok = sc["firsterr"] > 1
            return "%s:processed-despite-error:%s:error-%s" % (mode, shape, "after-good-argument" if first_ok else "first"), detail
        if o["code"] != 1:
            return "%s:error-exit-code-%s:%s" % (mode, o["code"], shape), detail
        return None
    if sc["kind"] == "nofiles":
        if named or o["changed"]:
            return "%s:processed-although-nothing-selected:%s" % (mode, shape), detail
        if o["code"] != 1:
            return "%s:nofiles-exit-code-%s" % (mode, o["code"]), detail
        return None
    ids = [_ident(f) for f in named]
    if sorted(set(ids)) != exp:
        return "%s:wrong-selection:%s" % (mode, shape), detail
    if len(ids) != len(set(ids)):
        return "%s:same-file-twice:%s" % (mode, shape), detail
    if named != sorted(named):
        return "%s:not-sorted:%s" % (mode, shape), detail
    if mode == "fix" and sorted(_ident(c) for c in o["changed"]) != exp:
        return "fix:changed-other-files:%s" % shape, detail
    if mode != "fix" and o["changed"]:
        return "%s:modified-files" % mode, detail
    want = {"list": 0, "scan": 1, "fix": 3}[mode]
    if o["code"] != want:
        return "%s:exit-code-%s-with-files:%s" % (mode, o["code"], shape), detail
    return None


def run(pid, tier):
    ctx = Ctx(pid, tier, "model_checking")
    runs_ = [("mc/MC_DiscoveryQ", "MC_DiscoveryQ.cfg", G.ARGS_QUICK)] if tier == "quick" else \
            [("mc/MC_Discovery", "MC_Discovery.cfg", G.ARGS), ("mc/MC_DiscoveryQ", "MC_Discovery3.cfg", G.ARGS_QUICK)]
    rnd = random.Random(seed())
    total, nontriv = 0, set()
    for mod, cfg, pool in runs_:
        r = tlc.run(mod, cfg, timeout=3000)
        ctx.ev.add_tlc("%s (%s)" % (mod, cfg), r)
        if not r.ok:
            raise Machinery("%s: Select violates its own property %s" % (mod, r.violated))
        scen = [p for p in r.printed if isinstance(p, dict)]
        if not scen:
            raise Machinery("Discovery model printed no scenario")
        groups = {}
        for sc in scen:
            groups.setdefault(tuple(sc["tree"]), []).append(sc)
        glist = [(list(t), ss, pool) for t, ss in sorted(groups.items())]
        res = impl.pmap(_direct_group, glist, procs=16, chunksize=1)
        for (t, ss, _), outs in zip(glist, res):
            for sc, (files, did_err, _e, exc) in zip(ss, outs):
                total += 1
                if sc["kind"] == "files":
                    nontriv.add((tuple(sc["tree"]), tuple(sc["args"]), sc["recurse"], sc["ext"]))
                v = _judge(sc, pool, files, did_err, exc)
                if v:
                    v[1].update({"tree": [G.ENTRIES[i - 1][0] for i in sc["tree"]], "recurse": sc["recurse"], "exts": G.EXTS[sc["ext"] - 1],
                                 "spec": {"kind": sc["kind"], "files": [G.ENTRIES[i - 1][0] for i in sc["files"]]}})
                    ctx.violation("function:" + v[0], v[1])
        # CLI / API sample
        n = 1200 if tier == "quick" else 12000
        sample = scen if len(scen) <= n else rnd.sample(scen, n)
        jobs = []
        for k, sc in enumerate(sample):
            mode = ("list", "scan", "fix", "list", "api")[k % 5]
            if mode == "api" and len(sc["args"]) != 1:
                mode = "scan"
            jobs.append((sc, pool, mode))
        # processing order: every scenario whose selection spans more than one directory goes through scan and fix (not sampled:
        # the order of the scan / fix loop is not the discovery function's business)
        multi = [sc for sc in scen if sc["kind"] == "files" and len({os.path.dirname(G.ENTRIES[i - 1][0]) for i in sc["files"]}) > 1]
        multi.sort(key=lambda sc: (sc["tree"], sc["args"], sc["recurse"], sc["ext"]))
        if tier == "quick" and len(multi) > 400:
            multi = multi[::max(1, len(multi) // 400)]
        for k, sc in enumerate(multi):
            jobs.append((sc, pool, ("scan", "fix")[k % 2]))
        cres = impl.pmap(_cli_case, jobs, procs=16)
        for (sc, _p, mode), o in zip(jobs, cres):
            total += 1
            v = _judge_cli(sc, pool, mode, o)
            if v:
                v[1].update({"tree": [G.ENTRIES[i - 1][0] for i in sc["tree"]], "recurse": sc["recurse"], "exts": G.EXTS[sc["ext"] - 1]})
                ctx.violation(v[0], v[1])
        ctx.ev.cov["traces_validated_against_impl"] += len(scen) + len(jobs)
        ctx.ev.parts.setdefault("cli_api_runs", 0)
        ctx.ev.parts["cli_api_runs"] += len(jobs)
        for sc in sample[:3]:
            ctx.ev.sample({"tree": [G.ENTRIES[i - 1][0] for i in sc["tree"]], "args": [pool[a - 1] for a in sc["args"]],
                           "recurse": sc["recurse"], "exts": G.EXTS[sc["ext"] - 1], "spec_kind": sc["kind"],
                           "spec_files": [G.ENTRIES[i - 1][0] for i in sc["files"]]})
    ctx.ev.cov["evaluations"] = total
    ctx.ev.cov["distinct_nontrivial"] = len(nontriv)
    ctx.ev.cov["exhaustive"] = True
    ctx.ev.cov["rule"] = ("every (tree, argument list, --recurse, --alternate-extensions) TLC enumerates within the configuration's bounds, "
                          "replayed into ApplicationFileScanner.determine_files_to_scan on a real directory; a VERIF_SEED sample through "
                          "`scan -l`/`scan`/`fix`/api.list_path; non-trivial = scenarios whose selection is non-empty")
    ctx.ev.assumptions += ["file identity = os.path.normpath of the reported name", "sortedness judged with Python's sorted() on the reported names"]
    return ctx


def replay(payload):
    import json
    print(json.dumps(payload.get("case"), indent=1))
    c = payload.get("case", {})
    base = tempfile.mkdtemp(prefix="vhd-")
    try:
        for p in c.get("tree", []):
            full = os.path.join(base, p)
            if (p, True) in G.ENTRIES:
                os.makedirs(full, exist_ok=True)
            else:
                os.makedirs(os.path.dirname(full), exist_ok=True)
                open(full, "wb").write(DOC)
        argv = c.get("argv") or (["scan", "-l"] + (["-r"] if c.get("recurse") else []) + c.get("args", []))
        r = impl.run_cli(argv, cwd=base)
        print("argv:", argv, "\nexit:", r.code, "\nstdout:", r.out, "\nstderr:", r.err)
    finally:
        shutil.rmtree(base, ignore_errors=True)
    return 1
