"""C09 -- fix mode converges: one run reaches a fixed point with nothing fixable left.

Model: spec/FixSched.tla.  TLC proves for all small instances that the level loop leaves nothing fixable behind when
fixes only dirty strictly higher levels, and exhibits the non-converging schedule for a same-level edge (negative
configuration: the invariant is not vacuous).  Binding: (1) the schedule of every real fix run (probe events
level_begin / level_end) is validated against Trace_FixSched with the rules' levels as unlogged variables;
(2) end to end, for documents x rule configurations: fix(fix(d)) = fix(d), the second run reports nothing fixed, and
scan(fix(d)) reports no failure of an enabled fix-capable rule."""
import itertools
import os
import random

from .. import corpus, impl, runs, tlc, tracev
from ..ctx import Ctx, Machinery
from ..evidence import seed

_RULES = None


def default_fixers():
    """ids of the fix-capable rules that are enabled by default (from `plugins list`)"""
    global _RULES
    if _RULES is None:
        r = impl.run_cli(["plugins", "list"], want_events=False)
        ids = []
        for line in r.out.splitlines():
            p = line.split()
            if len(p) >= 6 and p[-1] == "Yes" and p[-4] == "True" and p[0].startswith("md"):
                ids.append(p[0])
        _RULES = sorted(ids)
    return _RULES


EXTRA_DOCS = {   # families that exercise cooperating fixes (same line, same level, level chains)
    "tab-and-trailing": b"# T\n\nitem\t1   \n",
    "ordered-10": b"# T\n\n10. x\n11. y\n",
    "blank-runs": b"# T\n\n\n\ntext   \n\n\n",
    "tilde-then-indented": b"# T\n\n~~~text\ncode\n~~~\n\ntext\n\n    indented\n\n> quote\n>  more\n",
    "heading-levels": b"# T\n\n### skip\n\n#  two spaces\n",
    "list-mix": b"# T\n\n* a\n+ b\n   - c\n",
    "emphasis-spaces": b"# T\n\n** bold ** and ` code ` and [ link ](/u)\n",
    "no-final-newline": b"# T\n\ntext",
    "hr-styles": b"# T\n\n---\n\n***\n",
    "fence-in-list": b"# T\n\n- a\n```text\ncode\n```\n- b\n",
    # keys that start with a rule id: that rule alone is run on the document as well (C08)
    "md009-setext-multiline-hardbreak": b"Heading with a   \nhard break\n===\n\ntext with a break   \nnext line\n\n- item   \n  more\n\n> quote   \n> more\n",
    "md009-setext-later": b"# T\n\nFirst  \nsecond\n---\n\nparagraph   \nwith break\n",
    "md046-fence-after-two-line-para": b"    indented first\n\npara line one\npara line two\n```text\ncode\n```\n\n> quote one\n> quote two\n> ```text\n> c\n> ```\n",
    "md046-indented-after-para-list": b"```text\nfenced first\n```\n\npara\n\n    indented\n\n- item\n\n      indented in item\n",
    "md048-mixed-in-containers": b"```text\na\n```\n\n> ~~~text\n> b\n> ~~~\n\n- ~~~text\n  c\n  ~~~\n",
    "md035-in-containers": b"---\n\n> ***\n\n- - - -\n\n* * *\n",
    "md004-nested": b"- a\n  * b\n    + c\n\ntext\n\n+ d\n  - e\n",
    "md007-nested": b"- a\n   - b\n      - c\n- d\n    - e\n",
    "md029-long": b"1. a\n1. b\n3. c\n\ntext\n\n0. x\n1. y\n5. z\n",
    "md030-mixed": b"-  a\n-   b\n\n1.  c\n2.   d\n",
    "md037-many-pairs": b"# T\n\nthis * is * and * more* text\n\n- first _ a _ then _ b_ done\n\nuse * one * then * two * and * three * here\n\n> This * is * wrong and * so * is this.\n",
    "md038-md039-many": b"# T\n\n` a ` and ` b ` and ` c ` here\n\n[ x ](/u) then [ y ](/v) and [ z ](/w)\n",
    "md019-tab-only": b"# Title\n\nSome text.\n\n##\tSection\n\nMore text.\n",
    "md021-tab-only": b"# Title\n\n## Section\t##\n\nMore text.\n",
    "md019-md021": b"#  one\n\n##  two  ##\n\n###   three\n",
    "md012-in-containers": b"# T\n\n> a\n>\n>\n> b\n\n- c\n\n\n  d\n",
    "md010-tabs": b"# T\n\ntext\twith\ttabs\n\n\tcode with tab\n\n- item\twith tab\n",
    "md037-md038-md039": b"# T\n\nsome * emph * and ** strong ** text\n\nand ` code ` with [ link ]( /u ) here\n",
}


def _case(job):
    name, data, cfgname, disable = job
    argv0 = (["-d", ",".join(disable)] if disable else [])
    o1 = runs.execute([("doc.md", data)], argv0 + ["fix", "doc.md"])
    if o1["exc"] or o1["code"] not in (0, 3):
        return {"stage": "fix1", "code": o1["code"], "exc": o1["exc"], "err": o1["err"][-300:], "events": o1["events"]}
    c1 = o1["contents"].get("doc.md", b"")
    o2 = runs.execute([("doc.md", c1)], argv0 + ["fix", "doc.md"])
    c2 = o2["contents"].get("doc.md", b"")
    o3 = runs.execute([("doc.md", c1)], argv0 + ["scan", "doc.md"], keep_contents=False)
    rep = sorted({l.split(": ")[1] for l in o3["out"].splitlines() if ": MD" in l or ": PML" in l})
    sched = [e for e in o1["events"] if e["ev"] in ("file_begin", "level_begin", "level_end")]
    sched2 = [e for e in o2["events"] if e["ev"] in ("file_begin", "level_begin", "level_end")]
    return {"stage": "ok", "changed1": c1 != data, "code1": o1["code"], "code2": o2["code"], "same": c2 == c1, "reported": rep,
            "scan_code": o3["code"], "sched": sched, "sched2": sched2, "c1": c1.decode("utf-8", "replace")[:400], "c2": c2.decode("utf-8", "replace")[:400]}


def _strip(ev):
    out = []
    for e in ev:
        if e["ev"] == "file_begin":
            out.append({"ev": "file_begin"})
        elif e["ev"] == "level_begin":
            out.append({"ev": "level_begin", "level": e["level"], "fix_list": e["fix_list"], "collect_list": e["collect_list"]})
        else:
            out.append({"ev": "level_end", "triggers": e["triggers"], "keep": bool(e["keep"]), "next_level": e["next_level"]})
    return out


def run(pid, tier):
    ctx = Ctx(pid, tier, "model_checking")
    r = tlc.run("mc/MC_FixSched", "MC_FixSched.cfg")
    ctx.ev.add_tlc("MC_FixSched (Dirties strictly upward: converges, terminates, levels increase)", r)
    if not r.ok:
        raise Machinery("FixSched: %s violated although fixes only dirty higher levels" % r.violated)
    rn = tlc.run("mc/MC_FixSched", "MC_FixSched_neg.cfg")
    ctx.ev.add_tlc("MC_FixSched_neg (a same-level edge: TLC must find the non-converging schedule)", rn)
    if rn.ok or rn.violated != "Converged":
        raise Machinery("FixSched negative configuration did not produce the expected counterexample (vacuous model?)")
    if tier == "thorough":
        # beyond TLC's bound: six rules, EVERY assignment of levels 0..5, every upward Dirties relation (inductive invariant, Apalache)
        from .. import apalache
        a = apalache.inductive("FixSched_apa", ["FixSched"], init="AInit", extra=("--cinit=ConstInit", "--next=ANext"), timeout=900)
        ctx.ev.parts["apalache_FixSched_inductive_invariant"] = a
        if a["result"] == "violated":
            raise Machinery("FixSched_apa: IndInv is not inductive: %s" % a)
    fixers = default_fixers()
    if len(fixers) < 15:
        raise Machinery("could not read the fix-capable default rules from `plugins list`: %s" % fixers)
    rnd = random.Random(seed())
    docs = [(os.path.relpath(p, impl.REPO)[len("test/resources/rules/"):], corpus.read(p)) for p in corpus.rule_docs()]
    docs += [("extra/" + k, v) for k, v in EXTRA_DOCS.items()]
    jobs = []
    for name, data in docs:
        jobs.append((name, data, "default", []))
    # a trigger of each fix-capable rule inside nested structures (fixed family, all of it in both tiers): default set, and its rule alone
    from .. import docgen
    for name, text in docgen.fix_families():
        jobs.append((name, text.encode("utf-8"), "default", []))
        rule = name.split("/")[3][:5]
        if rule in fixers:
            jobs.append((name, text.encode("utf-8"), "only:" + rule, [x for x in fixers if x != rule]))
    # each fix-capable default rule alone: on the documents of its own directory and on the extra families
    for rule in fixers:
        others = [x for x in fixers if x != rule]
        own = [d for d in docs if d[0].startswith(rule + "/") or d[0].startswith("extra/")]
        if tier == "quick" and len(own) > 25:
            own = rnd.sample(own, 25)
        for name, data in own:
            jobs.append((name, data, "only:" + rule, others))
    # pairs
    pairs = list(itertools.combinations(fixers, 2))
    for a, b in pairs:
        others = [x for x in fixers if x not in (a, b)]
        cand = [d for d in docs if d[0].startswith("extra/") or d[0].startswith(a + "/") or d[0].startswith(b + "/")]
        k = 4 if tier == "quick" else len(cand)       # thorough: every candidate, so that any quick sample is a subset of it
        for name, data in (cand if len(cand) <= k else rnd.sample(cand, k)):
            jobs.append((name, data, "pair:%s+%s" % (a, b), others))
    res = impl.pmap(_case, jobs, procs=16)
    traces, tjobs = [], []
    nontriv = set()
    for (name, data, cfgname, _dis), o in zip(jobs, res):
        if o["stage"] != "ok":
            ctx.violation("fix-failed:%s:%s" % (cfgname.split(":")[0], name), {"document": name, "config": cfgname, "result": {k: v for k, v in o.items() if k != "events"}})
            continue
        if o["changed1"]:
            nontriv.add((name, cfgname))
        enabled_fix = set(f.upper() for f in fixers) if cfgname == "default" else set(x.upper() for x in cfgname.split(":")[1].split("+"))
        left = sorted(set(o["reported"]) & enabled_fix)
        kind = cfgname.split(":")[0]
        detail = {"document": name, "config": cfgname, "second_fix_changes": not o["same"], "second_fix_exit": o["code2"],
                  "fixable_rules_still_reported": left, "after_first_fix": o["c1"], "after_second_fix": o["c2"]}
        if left:
            ctx.violation("remaining-after-fix:%s:%s:%s" % (cfgname, "+".join(left), name), detail)
        elif not o["same"] or o["code2"] == 3:
            ctx.violation("second-fix-changes:%s:%s" % (cfgname, name), detail)
        traces.append(_strip(o["sched"]))
        tjobs.append((name, cfgname))
        traces.append(_strip(o["sched2"]))
        tjobs.append((name, cfgname + ":second-run"))
    tr, verdicts = tracev.validate("trace/Trace_FixSched", "Trace_FixSched.cfg", traces, "sched")
    ctx.ev.add_tlc("Trace_FixSched (%d fix runs)" % len(traces), tr)
    ctx.ev.cov["traces_validated_against_impl"] = len(traces)
    for (name, cfgname), t, v in zip(tjobs, traces, verdicts):
        if v["v"] != "ACCEPT":
            ctx.violation("schedule-reject:%s:%s" % (v["what"], cfgname.split(":")[0]), {"document": name, "config": cfgname, "verdict": v, "schedule": t})
    ctx.ev.cov["evaluations"] = len(jobs)
    ctx.ev.cov["distinct_nontrivial"] = len(nontriv)
    ctx.ev.parts["configs"] = {"default": sum(1 for j in jobs if j[2] == "default"), "single": sum(1 for j in jobs if j[2].startswith("only")),
                               "pair": sum(1 for j in jobs if j[2].startswith("pair"))}
    ctx.ev.cov["rule"] = ("documents of test/resources/rules plus families with cooperating fixes x {default rule set, each fix-capable default rule alone, "
                          "pairs of them}; non-trivial = (document, configuration) where the first fix changed the file")
    ctx.ev.sample({"document": jobs[0][0], "config": jobs[0][2], "schedule": traces[0] if traces else []})
    return ctx


def replay(payload):
    import json
    print(json.dumps(payload.get("case"), indent=1)[:3000])
    return 1
