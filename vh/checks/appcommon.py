"""Shared driver for the App-model checks (C10, C15 part, C18)."""
import os

from .. import appscen, impl, tlc
from ..ctx import Ctx, Machinery


def model_check(ctx):
    """Free exploration of App: the guards imply the invariants."""
    r = tlc.run("mc/MC_App", "MC_App.cfg", coverage=True)
    ctx.ev.add_tlc("MC_App (free exploration, invariants)", r)
    if not r.ok:
        raise Machinery("MC_App violates %s: the specification itself is inconsistent" % r.violated)
    # vacuity guard (TLC -coverage): every action of App must have been taken in the free exploration
    need = ["Start", "FileBegin", "ParseFail", "LevelBegin", "TmpNew", "TmpDel", "WritebackBegin", "WritebackEnd", "PassEnd", "LevelEnd",
            "ScanError", "Announce", "FileEnd", "Exit"]
    never = [a for a in need if not r.coverage.get(a)]
    if never:
        raise Machinery("MC_App never took the action(s) %s: the invariants were not exercised" % never)
    ctx.ev.parts["MC_App_action_coverage"] = {a: r.coverage.get(a, 0) for a in need}
    return r


def run_scenarios(ctx, cfg, keep, props):
    """Generate scenarios with TLC, replay the selected ones into the code, validate their traces."""
    r, scen = appscen.generate(cfg)
    ctx.ev.add_tlc("MC_AppScen (%s)" % cfg, r)
    scen = [s for s in scen if keep(s)]
    scen.sort(key=lambda s: str(s["sc"]))
    obs = impl.pmap(appscen.run_one, scen, procs=16)
    nontrivial = set()
    traces = []
    for rec, o in zip(scen, obs):
        sc = rec["sc"]
        for prop, sig, detail in appscen.compare(rec, o):
            if prop in props:
                ctx.violation(sig, detail)
        nontrivial.add((sc["cmd"], tuple(sc["kinds"]), sc["coe"], sc["sel"], sc["cfg"]))
        rank = {n: i + 1 for i, n in enumerate(sorted(o["names"]))}
        traces.append(appscen.trace_of(appscen.mode_of_cmd(sc["cmd"]), appscen.scheme_of_sel(sc["sel"]), sc["coe"],
                                       o["events"], o["code"], rank,
                                       disk=(o["changed"], len(o["created"]) + len(o["left"]) + len(o["deleted"]))))
    ctx.ev.cov["evaluations"] += len(scen)
    ctx.ev.cov["distinct_nontrivial"] += len(nontrivial)
    for rec, o in list(zip(scen, obs))[:: max(1, len(scen) // 4)][:4]:
        ctx.ev.sample({"scenario": rec["sc"], "spec_outcome": {k: rec[k] for k in ("category", "code", "announced", "changed", "visited", "failed")},
                       "argv": o["argv"][2:], "observed_code": o["code"]})
    return scen, obs, traces


def validate(ctx, scen, obs, traces, props, classify):
    tr, verdicts = appscen.validate_traces(traces)
    ctx.ev.add_tlc("Trace_App (%d traces)" % len(traces), tr)
    ctx.ev.cov["traces_validated_against_impl"] += len(traces)
    acc = 0
    for rec, o, t, v in zip(scen, obs, traces, verdicts):
        if v["v"] == "ACCEPT":
            acc += 1
            continue
        prop, sig = classify(rec, o, t, v)
        if prop in props:
            ctx.violation(sig, {"scenario": rec["sc"], "argv": o["argv"], "verdict": v, "trace": t})
    ctx.ev.parts["traces_accepted"] = ctx.ev.parts.get("traces_accepted", 0) + acc
    return verdicts


def classify_reject(rec, o, t, v):
    """Name the rejection: event that could not be explained and the state facts that explain why."""
    sc = rec["sc"]
    kinds = "+".join(sorted(set(k for k in sc["kinds"] if k in ("perr", "perrl", "terr", "undec")))) or "-"
    if v["v"] == "INVFAIL":
        inv = v["what"]
        prop = {"NoTempAtExit": "C15", "ErrorNeverMasked": "C15", "ScanReadOnly": "C10", "ChangedIffAnnounced": "C10",
                "AnnouncedOnlyIfChanged": "C10", "FixedCodeIffAnnounced": "C10", "ExitFollowsTable": "C18"}.get(inv, "C18")
        return prop, "trace-invariant:%s:%s:%s:coe=%s" % (inv, sc["cmd"], kinds, "T" if sc["coe"] else "F")
    ev = v["what"]
    state = v.get("state", {})
    why = ""
    if ev == "exit":
        if state.get("ntemps", 0) != 0:
            return "C15", "trace-reject:exit:temp-left:%s:%s:coe=%s" % (sc["cmd"], kinds, "T" if sc["coe"] else "F")
        why = "category-or-code"
        return ("C15" if kinds != "-" else "C18"), "trace-reject:exit:%s:%s:%s:coe=%s" % (why, sc["cmd"], kinds, "T" if sc["coe"] else "F")
    if ev == "disk":
        why = "temp-left:" if o["left"] else ("created:" if o["created"] else "")
        return ("C15" if kinds != "-" else "C10"), "trace-reject:disk:%s%s:%s:coe=%s" % (why, sc["cmd"], kinds, "T" if sc["coe"] else "F")
    if ev == "file_end":
        return ("C15" if kinds != "-" else "C10"), "trace-reject:file_end:%s:%s:coe=%s" % (sc["cmd"], kinds, "T" if sc["coe"] else "F")
    prop = "C15" if kinds != "-" else ("C10" if sc["cmd"] in ("fix",) else "C18")
    return prop, "trace-reject:%s:%s:%s:coe=%s" % (ev, sc["cmd"], kinds, "T" if sc["coe"] else "F")


def suite_traces(ctx, tier, props):
    """The repository's own tests as a trace source: every command line they drive (probes on) is validated against Trace_App.
    props: which properties this check reports ({"C18"}: exit table / error never masked; {"C10"}: changed <=> announced <=> code)."""
    import glob
    from .. import suite
    paths = sorted(os.path.relpath(p_, impl.REPO) for p_ in glob.glob(os.path.join(impl.REPO, "test", "test_main*.py")))
    paths += ["test/api", "test/test_listfiles.py", "test/test_exception_handling.py"]
    if tier == "thorough":
        paths.append("test/rules")
    runs_, tail = suite.record(paths, workers=8)
    traces, kept = [], []
    for r in runs_:
        t = suite.frame(r)
        if t:
            traces.append(t)
            kept.append(r)
    if len(traces) < 100:
        raise Machinery("only %d runs of the repository's tests could be framed as traces (%s)" % (len(traces), tail))
    tr_, verdicts = appscen.validate_traces(traces, "suite")
    ctx.ev.add_tlc("Trace_App (%d command lines driven by the repository's own tests)" % len(traces), tr_)
    ctx.ev.cov["traces_validated_against_impl"] += len(traces)
    ctx.ev.cov["evaluations"] += len(traces)
    ctx.ev.parts["repository_test_runs_validated"] = {"pytest": tail, "runs_recorded": len(runs_), "framed": len(traces)}
    for r, t, v in zip(kept, traces, verdicts):
        if v["v"] == "ACCEPT":
            continue
        rb = next(e for e in r if e.get("ev") == "run_begin")
        cmd = {"scan-stdin": "stdin"}.get(rb.get("command"), rb.get("command"))
        st = v.get("state", {})
        if v["v"] == "INVFAIL":
            prop = {"NoTempAtExit": "C15", "ErrorNeverMasked": "C18", "ExitFollowsTable": "C18"}.get(v["what"], "C10")
            sig = "suite-trace-invariant:%s:%s" % (v["what"], cmd)
        elif v["what"] == "exit" and st.get("ntemps", 0):
            prop, sig = "C15", "trace-reject:exit:temp-left:%s:suite:coe=%s" % (cmd, "T" if rb.get("continue_on_error") else "F")
        elif v["what"] in ("exit", "proc_exit"):
            prop, sig = "C18", "suite-trace-reject:%s:%s" % (v["what"], cmd)
        else:
            prop, sig = ("C10" if cmd == "fix" else "C18"), "suite-trace-reject:%s:%s" % (v["what"], cmd)
        if prop in props:
            ctx.violation(sig, {"command": rb, "verdict": v, "trace_head": [e for e in t if e["ev"] != "failure"][:12], "trace_tail": t[-4:]})
        else:
            ctx.ev.parts.setdefault("suite_rejections_of_other_properties", {})
            ctx.ev.parts["suite_rejections_of_other_properties"][sig] = ctx.ev.parts["suite_rejections_of_other_properties"].get(sig, 0) + 1


def replay(payload):
    """Re-run the case stored in a replay file; exit status 1 if it still violates."""
    import json
    case = payload.get("case", {})
    pid = payload.get("property", "?")
    sc = case.get("scenario")
    if sc is None:
        print("replay: this case has no abstract scenario (corpus / crash case); stored details:")
        print(json.dumps(case, indent=1)[:2000])
        return 1
    _r, scen = appscen.generate("MC_AppScen_thorough.cfg" if len(sc["kinds"]) <= 3 and sc["cfg"] != "ok" or sc["sel"] not in ("none", "arg_minimal", "cfg_minimal")
                                else "MC_AppScen_c15_thorough.cfg")
    rec = next((s for s in scen if s["sc"] == sc), None)
    if rec is None:
        print("replay: scenario not in the model's scenario set:", sc)
        return 2
    o = appscen.run_one(rec)
    bad = [b for b in appscen.compare(rec, o) if b[0] == pid]
    print("scenario:", sc)
    print("argv:", o["argv"])
    print("specification outcome:", {k: rec[k] for k in ("category", "code", "announced", "changed", "visited", "failed")})
    print("observed: code=%s changed=%s left=%s" % (o["code"], o["changed"], o["left"]))
    print("stdout:", o["out"][-500:])
    print("stderr:", o["err"][-500:])
    for p, sig, _d in bad:
        print("VIOLATION property=%s signature=%s" % (p, sig))
    return 1 if bad else 0
