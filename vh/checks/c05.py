"""C05 -- token positions are true: line/column point at the element's opening text in the source (MdPos via Trace_MdTokens)."""
from .. import impl, psweep
from ..ctx import Ctx
from . import c04


def run(pid, tier):
    ctx = Ctx(pid, tier, "model_checking")
    keep, traces, verdicts = c04.collect(ctx, tier, "pos")
    nontriv = 0
    for ((name, text), evs), v in zip(keep, verdicts):
        if sum(1 for e in evs if e["pos"]) > 1:
            nontriv += 1
        if v["v"] == "ACCEPT" or v["what"] not in c04.POS:
            continue          # nesting faults are C04's business
        e = evs[v["pos"] - 1]
        line = text.split("\n")[e["line"] - 1] if 1 <= e["line"] <= len(text.split("\n")) else ""
        ctx.violation("%s:%s :: %s :: on %s" % (v["what"], v.get("n"), name or psweep.doc_shape(text), psweep.shape(line) if line else "no-such-line"),
                      {"document": text, "token": e["n"], "reported": [e["line"], e["col"]], "line_text": line, "char_raw": e["chr"], "char_visual": e["chv"]})
    ctx.ev.cov["distinct_nontrivial"] = nontriv
    ctx.ev.cov["rule"] = ("every positioned token of every document TLC enumerates from MdBlocks and of the fixed pools: line exists, column in line, character "
                          "at the position (raw or tab-expanded reading) is an opener of the token's kind, block tokens in non-decreasing line order; "
                          "non-trivial = documents with more than one positioned token")
    ctx.ev.sample({"document": keep[len(keep) // 2][0][1], "positions": [(e["n"], e["line"], e["col"], e["chr"]) for e in keep[len(keep) // 2][1] if e["pos"]][:8]})
    return ctx


replay = c04.replay
