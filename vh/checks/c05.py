"""C05 -- token positions are true: line/column point at the element's opening text in the source (MdPos via Trace_MdTokens)."""
from .. import impl, psweep
from ..ctx import Ctx
from . import c04


BLOCKMAP = {"block-quote": "bq", "ulist": "list", "olist": "list", "li": "item", "para": "para", "atx": "heading", "setext": "heading",
            "fcode-block": "code", "icode-block": "code", "tbreak": "hr", "html-block": "html"}


def _model_positions(node, out, first_item=False):
    t = node["t"]
    if t != "doc" and not (t == "item" and first_item):
        out.append((t, node["ln"], node["col"]))
    first = True
    for k in node["kids"]:
        _model_positions(k, out, first_item=(t == "list" and first))
        first = False


def _model_one(item):
    """positions of the block tokens against the opener positions of the MdBlocks nodes (same structure, no tabs)"""
    from .. import canon
    text, rec = item
    if "\t" in text or "[" in text:                 # link reference definitions move / remove paragraphs: positions not compared
        return None
    r = impl.parse(text, timeout=3)
    if isinstance(r, tuple) and r and r[0] == "EXC":
        return None
    try:
        if canon.freeze(canon.from_html(impl.to_html(r))) != canon.freeze(canon.from_model(rec["tree"])):
            return None                       # structure not agreed: C03's business
    except Exception:  # pylint: disable=broad-except
        return None
    want = []
    _model_positions(rec["tree"], want)
    loose = [t.token_name in ("icode-block", "html-block") for t in r if t.token_name in BLOCKMAP and not t.is_end_token]
    got = [(BLOCKMAP[t.token_name],) + ((t.original_line_number, t.original_column_number) if t.token_name == "setext" else (t.line_number, t.column_number))
           for t in r if t.token_name in BLOCKMAP and not t.is_end_token]
    if [w[0] for w in want] != [g[0] for g in got]:
        return ("sequence", want, got)
    for w, g, lo in zip(want, got, loose):
        # indented code and HTML blocks start where the container's content area starts, before the indentation
        if (w[:2] != g[:2] or g[2] > w[2]) if lo else (w != g):
            return ("position", w, g)
    return ("ok", len(want), None)


HEADING_RULES = ("MD001", "MD003", "MD022", "MD024", "MD025", "MD026")


def _heading_report_docs():
    """setext / ATX headings whose text and underline start in different columns, in and out of containers, with and without final
    punctuation, duplicated, not surrounded by blank lines: the rules that report on a heading copy the heading's position"""
    docs = []
    for cont, ind in (("", ""), ("> ", "> "), ("- ", "  ")):
        for it in ("", " ", "  ", "   "):
            for iu in ("", " ", "  ", "   "):
                for punct in ("", ":"):
                    docs.append("# Doc\n\n%s%sOverview%s\n%s%s--------\n%sSome text\n\n%s%sOverview%s\n%s%s========\n" %
                                (cont, it, punct, ind, iu, ind, ind if cont != "- " else "  ", it, punct, ind, iu))
    return docs


ELEMENT_RULES = {"MD034": ("http://", "https://", "ftp://", "ftps://"), "MD033": ("<",), "MD042": ("[", "!["), "MD045": ("![",)}


def _element_report_docs():
    """rules that report ON an inline element: several elements of the same kind per paragraph, on first and later lines, in containers"""
    docs = []
    for ctxp, ind in (("", ""), ("> ", "> "), ("- ", "  ")):
        docs.append("# T\n\n%sMirrors are available at\n%shttp://mirror1.example.com/pub and\n%shttp://mirror2.example.com/pub for download.\n" % (ctxp, ind, ind))
        docs.append("# T\n\n%sFor details,\n%ssee http://docs.example.com/a and http://docs.example.com/b today, or ftp://x.example/y\n" % (ctxp, ind))
        docs.append("# T\n\n%sSome <b>bold</b> text\n%sand <i>more</i> with <u>three</u> tags\n%sthen <s>last</s>.\n" % (ctxp, ind, ind))
        docs.append("# T\n\n%sAn [empty]() link\n%sand [another](#) plus ![](/i.png) image\n%sthen ![ ](/j.png) and [x]( ) end.\n" % (ctxp, ind, ind))
    return docs


def _report_one(text):
    from .. import obs as obsmod, runs
    o = runs.execute([("doc.md", text.encode("utf-8"))], ["scan", "doc.md"], keep_contents=False)
    if o["exc"] or o["code"] not in (0, 1) or "Error" in o["err"]:
        return None
    lines = text.split("\n")
    bad = []
    for f in obsmod.parse_failures(o["out"]):
        _n, ln, col, rule = f[0], f[1], f[2], f[3]
        if rule in ELEMENT_RULES and 1 <= ln <= len(lines):
            if not lines[ln - 1][col - 1:].startswith(ELEMENT_RULES[rule]) or col < 1:
                bad.append((rule, ln, col, lines[ln - 1]))
            continue
        if rule not in HEADING_RULES or not (1 <= ln <= len(lines)):
            continue
        line = lines[ln - 1]
        ch = line[col - 1] if 1 <= col <= len(line) else ""
        # MD026 points at the punctuation; every other heading rule at the first character of the heading (text or `#`)
        ok = (ch != "" and ch in ".,;:!?") if rule == "MD026" else (ch not in ("", " ", "\t", ">") and (col == 1 or line[:col - 1].strip(" >-") == ""))
        if not ok:
            bad.append((rule, ln, col, line))
    return bad


def run(pid, tier):
    ctx = Ctx(pid, tier, "model_checking")
    keep, traces, verdicts = c04.collect(ctx, tier, "pos")
    # ---- what the user sees: reports of the heading rules carry the heading's own position
    hd = _heading_report_docs() + _element_report_docs()
    hres = impl.pmap(_report_one, hd, procs=16, chunksize=4)
    judged = 0
    for text, bad in zip(hd, hres):
        if bad is None:
            continue
        judged += 1
        for rule, ln, col, line in bad:
            ctx.violation("report-position-not-on-%s:%s :: %s" % ("element" if rule in ELEMENT_RULES else "heading", rule, psweep.doc_shape(text)), {"document": text, "rule": rule, "line": ln, "column": col, "source_line": line})
    ctx.ev.parts["heading_report_documents"] = judged
    # ---- second oracle: the opener positions the block model assigns
    from .. import docspace
    md = docspace.model_docs(ctx, tier)
    mres = impl.pmap(_model_one, md, procs=16, chunksize=200)
    compared = 0
    for (text, rec), o in zip(md, mres):
        if o is None:
            continue
        compared += 1
        if o[0] == "position":
            ctx.violation("model-position:%s :: %s" % (o[1][0], psweep.doc_shape(text)), {"document": text, "model": o[1], "implementation": o[2]})
    ctx.ev.parts["documents_compared_with_model_positions"] = compared
    nontriv = 0
    for ((name, text), evs), v in zip(keep, verdicts):
        if sum(1 for e in evs if e["pos"]) > 1:
            nontriv += 1
        if v["v"] == "ACCEPT" or v["what"] not in c04.POS:
            continue          # nesting faults are C04's business
        e = evs[v["pos"] - 1]
        line = text.split("\n")[e["line"] - 1] if 1 <= e["line"] <= len(text.split("\n")) else ""
        ctx.violation("%s:%s :: %s :: on %s" % (v["what"], v.get("n"), name or psweep.doc_shape(text), psweep.shape(line) if line else "no-such-line"),
                      {"document": text, "token": e["n"], "reported": [e["line"], e["col"]], "line_text": line, "char_raw": e["chr"], "char_visual": e["chv"]})
    ctx.ev.cov["distinct_nontrivial"] = nontriv
    ctx.ev.cov["rule"] = ("every positioned token of every document TLC enumerates from MdBlocks and of the fixed pools: line exists, column in line, character "
                          "at the position (raw or tab-expanded reading) is an opener of the token's kind, block tokens in non-decreasing line order; "
                          "non-trivial = documents with more than one positioned token")
    ctx.ev.sample({"document": keep[len(keep) // 2][0][1], "positions": [(e["n"], e["line"], e["col"], e["chr"]) for e in keep[len(keep) // 2][1] if e["pos"]][:8]})
    return ctx


replay = c04.replay
