"""C17 -- rule selection and settings follow the documented precedence of layers.

spec/Config.tla defines Enabled / Item (most specific layer wins; -d beats -e; invalid value -> default, or a
configuration error in strict mode).  TLC enumerates the complete lattice (3^4 layer values x 4 command-line forms x
default-enabled/-disabled; 4^4 item layer values x strict) and prints the resolution of each point; the harness
writes each point as real configuration (pyproject.toml, .pymarkdown[.yaml|.yml], --config JSON/YAML/TOML, --set,
-e/-d; rule addressed by id or by alias) and observes `plugins list`, `plugins info`, the `enabled` probe event and
a probe scan."""
import json
import os
import random

from .. import impl, runs, tlc
from ..ctx import Ctx, Machinery
from ..evidence import seed

RULES = [  # (id, alias, enabled by default, document that makes it fire)
    ("md047", "single-trailing-newline", True, b"# T\n\ntext"),
    ("md002", "first-heading-h1", False, b"## T\n\ntext\n"),
    ("md013", "line-length", True, b"# T\n\n" + b"word " * 20 + b"end\n"),
]
CFG_FORMATS = ["json", "yaml", "toml"]
DEF_FORMATS = [".pymarkdown", ".pymarkdown.yaml", ".pymarkdown.yml"]

ITEMS = [  # (rule id, alias, item, type, value a, value b, unacceptable value, kind of unacceptable)
    ("md013", "line-length", "line_length", "int", 85, 90, "abc", "wrong-type"),
    ("md013", "line-length", "line_length", "int", 85, 90, 0, "out-of-range"),
    ("md013", "line-length", "code_blocks", "bool", False, True, "abc", "wrong-type"),
    ("md003", "heading-style", "style", "str", "atx", "setext", 12, "wrong-type"),
    ("md003", "heading-style", "style", "str", "atx", "setext", "bogus", "out-of-range"),
    ("md007", "ul-indent", "indent", "int", 3, 4, 9, "out-of-range"),
]


def _nested(name, key, val):
    return {"plugins": {name: {key: val}}}


def _dump(fmt, data):
    if fmt == "json":
        return json.dumps(data).encode()
    if fmt == "yaml":
        import yaml
        return yaml.safe_dump(data).encode()
    if fmt == "toml":
        out = []
        for name, kv in data["plugins"].items():
            out.append("[plugins.%s]" % name)
            for k, v in kv.items():
                out.append("%s = %s" % (k, _toml(v)))
        return ("\n".join(out) + "\n").encode()
    if fmt == "pyproject":
        out = ["[tool.pymarkdown]"]
        for name, kv in data["plugins"].items():
            for k, v in kv.items():
                out.append("plugins.%s.%s = %s" % (name, k, _toml(v)))
        return ("\n".join(out) + "\n").encode()
    raise ValueError(fmt)


def _toml(v):
    if isinstance(v, bool):
        return "true" if v else "false"
    if isinstance(v, int):
        return str(v)
    return json.dumps(v)


def _setarg(name, key, v):
    if isinstance(v, bool):
        return "plugins.%s.%s=$!%s" % (name, key, v)
    if isinstance(v, int):
        return "plugins.%s.%s=$#%d" % (name, key, v)
    return "plugins.%s.%s=%s" % (name, key, v)


NOISE = {"plugins": {"md001": {"enabled": True}}}       # a layer that exists but does not mention the rule / item


def _layers(name, key, values, cfg_fmt, def_fmt, noise=False):
    """values: [set, config, deffile, pyproject] each None or a Python value -> (argv prefix, files).
    noise: layers that do not mention the setting still exist, with an unrelated setting in them."""
    argv, files = [], []
    v_set, v_cfg, v_def, v_prj = values
    if v_prj is not None or noise:
        files.append(("pyproject.toml", _dump("pyproject", _nested(name, key, v_prj) if v_prj is not None else NOISE)))
    if v_def is not None or noise:
        files.append((def_fmt, _dump("json" if def_fmt == ".pymarkdown" else "yaml", _nested(name, key, v_def) if v_def is not None else NOISE)))
    if v_cfg is not None or noise:
        fn = "cfg." + cfg_fmt
        files.append((fn, _dump(cfg_fmt, _nested(name, key, v_cfg) if v_cfg is not None else NOISE)))
        argv += ["--config", fn]
    if v_set is not None:
        argv += ["--set", _setarg(name, key, v_set)]
    elif noise:
        argv += ["--set", "plugins.md001.enabled=$!True"]
    return argv, files


def _enabled_case(job):
    sc, rule, naming, cfg_fmt, def_fmt, probe, noise = job
    rid, alias, _dflt, doc = rule
    name = rid if naming == "id" else alias
    tri = {"unset": None, "true": True, "false": False}
    argv, files = _layers(name, "enabled", [tri[v] for v in sc["vals"]], cfg_fmt, def_fmt, noise)
    if sc["cmd"] in ("e", "both"):
        argv += ["-e", name]
    if sc["cmd"] in ("d", "both"):
        argv += ["-d", name]
    o = runs.execute([], argv + ["plugins", "list", rid], cfg_files=files, keep_contents=False)
    cur = None
    for line in o["out"].splitlines():
        parts = line.split()
        if parts and parts[0] == rid and len(parts) >= 6:
            cur = parts[-3] == "True"
    ev = [e for e in o["events"] if e["ev"] == "enabled" and e["rule"] == rid]
    res = {"argv": o["argv"], "listed": cur, "code": o["code"], "err": o["err"][-300:], "event": ev[-1] if ev else None,
           "files": [(n, d.decode()) for n, d in files]}
    if probe:
        p = runs.execute([("doc.md", doc)], argv + ["-d", ",".join(r for r in ("md041", "md047", "md013", "md002") if r != rid) if sc["cmd"] == "none" else "md041",
                                                    "scan", "doc.md"], cfg_files=files, keep_contents=False) \
            if False else runs.execute([("doc.md", doc)], argv + ["scan", "doc.md"], cfg_files=files, keep_contents=False)
        res["fired"] = any((": %s:" % rid.upper()) in l for l in p["out"].splitlines())
        res["probe_code"] = p["code"]
    return res


def _strict(key):
    """strict mode by the command-line flag or by the documented property mode.strict-config (chosen by the item's name)"""
    import zlib
    return ["--strict-config"] if zlib.crc32(key.encode()) % 2 else ["--set", "mode.strict-config=$!True"]


def _item_case(job):
    sc, item, naming, cfg_fmt, def_fmt, noise = job
    rid, alias, key, typ, a, b, bad, _badkind = item
    name = rid if naming == "id" else alias
    m = {"unset": None, "a": a, "b": b, "bad": bad}
    argv, files = _layers(name, key, [m[v] for v in sc["vals"]], cfg_fmt, def_fmt, noise)
    if sc["strict"]:
        argv = _strict(key) + argv
    o = runs.execute([], argv + ["plugins", "info", rid], cfg_files=files, keep_contents=False)
    return {"argv": o["argv"], "code": o["code"], "shown": _shown(o["out"], key), "err": o["err"][-300:],
            "files": [(n, d.decode()) for n, d in files]}


def _shown(out, key):
    for line in out.splitlines():
        parts = line.split(None, 2)
        if len(parts) == 3 and parts[0] == key and parts[1] in ("integer", "boolean", "string"):
            return parts[2].strip()
    return None


def _show(v):
    if isinstance(v, bool):
        return str(v)
    if isinstance(v, int):
        return str(v)
    return '"%s"' % v


def _all_items():
    r = impl.run_cli(["plugins", "list", "--all"], want_events=False)
    out = []
    for line in r.out.splitlines():
        parts = line.split()
        if len(parts) >= 6 and parts[-1] in ("Yes", "No") and parts[-2][0].isdigit():
            rid = parts[0]
            info = impl.run_cli(["plugins", "info", rid], want_events=False)
            for l in info.out.splitlines():
                p = l.split(None, 2)
                if len(p) == 3 and p[1] in ("integer", "boolean", "string") and p[0] != "CONFIGURATION":
                    out.append((rid, p[0], p[1], p[2].strip()))
    return out


# values the rule documentation names (tables of styles; numbers used or mentioned in the text): each must be honoured as written
DOC_VALUES = {
    ("md002", "level"): [1, 2], ("md003", "style"): ["consistent", "atx", "atx_closed", "setext", "setext_with_atx", "setext_with_atx_closed"],
    ("md003", "allow-setext-update"): [True, False], ("md004", "style"): ["consistent", "asterisk", "dash", "plus", "sublist"],
    ("md007", "indent"): [2, 3, 4], ("md007", "start_indented"): [True], ("md009", "br_spaces"): [0, 2, 3], ("md009", "strict"): [True],
    ("md009", "list_item_empty_lines"): [True], ("md010", "code_blocks"): [False], ("md012", "maximum"): [1, 2, 3],
    ("md013", "line_length"): [50, 80, 100], ("md013", "code_block_line_length"): [50, 120], ("md013", "heading_line_length"): [50, 120],
    ("md013", "code_blocks"): [False], ("md013", "headings"): [False], ("md013", "strict"): [True], ("md013", "stern"): [True],
    ("md022", "lines_above"): [0, 1, 2], ("md022", "lines_below"): [0, 1, 2], ("md024", "siblings_only"): [True],
    ("md024", "allow_different_nesting"): [True], ("md025", "level"): [1, 2], ("md029", "style"): ["one_or_ordered", "one", "ordered", "zero"],
    ("md029", "allow_extended_start_values"): [True], ("md030", "ul_single"): [1, 2, 3], ("md030", "ul_multi"): [1, 3], ("md030", "ol_single"): [1, 2],
    ("md030", "ol_multi"): [1, 2], ("md031", "list_items"): [False], ("md033", "allow_first_image_element"): [False],
    ("md035", "style"): ["consistent", "---", "***", "- - -"], ("md041", "level"): [1, 2], ("md044", "code_blocks"): [False], ("md044", "code_spans"): [False],
    ("md046", "style"): ["consistent", "fenced", "indented"], ("md048", "style"): ["consistent", "backtick", "tilde"], ("pml101", "indent"): [4],
}


def _docvalue_case(job):
    rid, key, val, layer, strict = job
    vals = [None, None, None, None]
    vals[layer] = val
    argv, files = _layers(rid, key, vals, "json", ".pymarkdown")
    if strict:
        argv = _strict(key) + argv
    o = runs.execute([], argv + ["plugins", "info", rid], cfg_files=files, keep_contents=False)
    return {"argv": o["argv"], "code": o["code"], "shown": _shown(o["out"], key), "err": o["err"][-200:]}


def _wrongtype_case(job):
    rid, key, typ, dflt, layer, strict = job
    bad = "abc" if typ in ("integer", "boolean") else 12
    vals = [None, None, None, None]
    vals[layer] = bad
    argv, files = _layers(rid, key, vals, "json", ".pymarkdown")
    if strict:
        argv = _strict(key) + argv
    o = runs.execute([], argv + ["plugins", "info", rid], cfg_files=files, keep_contents=False)
    return {"argv": o["argv"], "code": o["code"], "shown": _shown(o["out"], key), "err": o["err"][-200:]}


def run(pid, tier):
    ctx = Ctx(pid, tier, "model_checking")
    r = tlc.run("mc/MC_Config", "MC_Config.cfg")
    ctx.ev.add_tlc("MC_Config (complete lattice)", r)
    if not r.ok:
        raise Machinery("Config model violates %s" % r.violated)
    pts = [p for p in r.printed if isinstance(p, dict)]
    en = [p for p in pts if p["kind"] == "enabled"]
    it = [p for p in pts if p["kind"] == "item"]
    if len(en) != 648 or len(it) != 512:
        raise Machinery("Config lattice incomplete: %d enabled points, %d item points" % (len(en), len(it)))
    rnd = random.Random(seed())
    # ---- enabled lattice
    jobs = []
    for k, sc in enumerate(en):
        for rule in RULES[:2]:
            if rule[2] != sc["default"]:
                continue
            combos = [(n, c, d) for n in ("id", "alias") for c in CFG_FORMATS for d in DEF_FORMATS]
            if tier == "quick":
                combos = [combos[(k * 5 + j * 7) % len(combos)] for j in range(3)]
                combos = list(dict.fromkeys(combos))
            for n, c, d in combos:
                jobs.append((sc, rule, n, c, d, (k + len(jobs)) % (4 if tier == "quick" else 2) == 0, len(jobs) % 2 == 1))
            if tier == "thorough":
                for n, c, d in combos:
                    jobs.append((sc, rule, n, c, d, False, len(jobs) % 2 == 0))
    res = impl.pmap(_enabled_case, jobs, procs=16)
    for (sc, rule, naming, cf, df, _probe, noise), o in zip(jobs, res):
        exp = sc["enabled"]
        used = [FL for FL, v in zip(("set", "config:" + cf, "deffile:" + df, "pyproject"), sc["vals"]) if v != "unset"]
        tag = "cmd=%s:layers=%s:naming=%s%s" % (sc["cmd"], "+".join(used) or "-", naming, ":other-layers-present" if noise else "")
        detail = {"rule": rule[0], "point": sc, "argv": o["argv"], "files": o["files"], "expected_enabled": exp, "listed": o["listed"],
                  "deciding_layer": sc["layer"], "stderr": o["err"]}
        if o["listed"] is None:
            ctx.violation("enabled:no-answer:%s" % tag, detail)
        elif o["listed"] != exp:
            ctx.violation("enabled:expected=%s:decider=%s:%s" % (exp, sc["layer"], tag), detail)
        elif "fired" in o and o["fired"] != exp:
            ctx.violation("enabled:probe-scan-disagrees:expected=%s:%s" % (exp, tag), detail)
    ctx.ev.cov["evaluations"] += len(jobs)
    # ---- item lattice on representative items
    ijobs = []
    items = ITEMS if tier == "thorough" else ITEMS[:4]
    for k, sc in enumerate(it):
        for j, item in enumerate(items):
            if tier == "quick" and (k + j) % 3:
                continue
            n = ("id", "alias")[(k + j) % 2]
            ijobs.append((sc, item, n, CFG_FORMATS[(k + j) % 3], DEF_FORMATS[(k // 3 + j) % 3], (k + j) % 2 == 1))
    ires = impl.pmap(_item_case, ijobs, procs=16)
    dflt_cache = {}
    for (sc, item, naming, cf, df, noise), o in zip(ijobs, ires):
        rid, alias, key, typ, a, b, bad, badkind = item
        exp = sc["value"]
        used = [FL for FL, v in zip(("set", "config:" + cf, "deffile:" + df, "pyproject"), sc["vals"]) if v != "unset"]
        top = next((v for v in sc["vals"] if v != "unset"), "unset")
        tag = "%s.%s:%s:top=%s:strict=%s:layers=%s%s" % (rid, key, badkind, top, sc["strict"], "+".join(used) or "-",
                                                          ":other-layers-present" if noise else "")
        detail = {"item": "%s.%s" % (rid, key), "point": sc, "argv": o["argv"], "files": o["files"], "shown": o["shown"], "code": o["code"], "stderr": o["err"]}
        if exp == "CONFIG-ERROR":
            if o["code"] != 1 or not o["err"].strip():
                ctx.violation("item:strict-error-expected:%s" % tag, detail)
            continue
        if o["code"] != 0 or o["shown"] is None:
            ctx.violation("item:unexpected-failure:%s" % tag, detail)
            continue
        if exp == "dflt":
            dflt_cache.setdefault((rid, key), set()).add(o["shown"])
            if o["shown"] in (_show(a), _show(b)) and _show(a) != o["shown"] != _show(b):
                pass
            if top != "unset" and o["shown"] == _show(bad):
                ctx.violation("item:unacceptable-value-used:%s" % tag, detail)
        else:
            want = _show({"a": a, "b": b}[exp])
            if o["shown"] != want:
                ctx.violation("item:expected=%s:%s" % (exp, tag), detail)
    for (rid, key), shown in dflt_cache.items():
        if len(shown) != 1:
            ctx.violation("item:default-not-unique:%s.%s" % (rid, key), {"shown": sorted(shown)})
    ctx.ev.cov["evaluations"] += len(ijobs)
    # ---- every configurable item of every rule: wrongly typed value at each layer, lenient and strict
    allitems = _all_items()
    wjobs = [(rid, key, typ, dflt, layer, strict) for (rid, key, typ, dflt) in allitems for layer in range(4) for strict in (False, True)]
    if tier == "quick":
        wjobs = [j for i, j in enumerate(wjobs) if i % 2 == seed() % 2]
    wres = impl.pmap(_wrongtype_case, wjobs, procs=16)
    for (rid, key, typ, dflt, layer, strict), o in zip(wjobs, wres):
        tag = "%s.%s:%s:layer=%s" % (rid, key, typ, ("set", "config", "deffile", "pyproject")[layer])
        detail = {"argv": o["argv"], "shown": o["shown"], "default": dflt, "code": o["code"], "stderr": o["err"]}
        if strict:
            if o["code"] != 1:
                ctx.violation("allitems:strict-accepts-wrong-type:%s" % tag, detail)
        elif o["code"] != 0 or o["shown"] != dflt:
            ctx.violation("allitems:lenient-wrong-type-not-default:%s" % tag, detail)
    ctx.ev.cov["evaluations"] += len(wjobs)
    # ---- every value the documentation names for an item is honoured as written (Item: a valid value at the deciding layer is the value)
    known_items = {(rid, key) for (rid, key, _t, _d) in allitems}
    djobs = [(rid, key, v, layer, strict) for (rid, key), vs in sorted(DOC_VALUES.items()) if (rid, key) in known_items
             for v in vs for layer, strict in ((0, False), (1, True), (2, False))]
    if len(djobs) < 100:
        raise Machinery("documented-values table does not match the items of `plugins info` (%d cases)" % len(djobs))
    dres = impl.pmap(_docvalue_case, djobs, procs=16)
    for (rid, key, v, layer, strict), o in zip(djobs, dres):
        tag = "%s.%s=%s" % (rid, key, v)
        if o["code"] != 0 or o["shown"] != _show(v):
            ctx.violation("docvalue:not-honoured:%s" % tag, {"argv": o["argv"], "shown": o["shown"], "expected": _show(v), "code": o["code"], "stderr": o["err"],
                                                            "layer": ("set", "config", "deffile")[layer], "strict": strict})
    ctx.ev.cov["evaluations"] += len(djobs)
    ctx.ev.parts["documented_values_checked"] = len(djobs)
    ctx.ev.parts["configurable_items_found"] = len(allitems)
    ctx.ev.cov["distinct_nontrivial"] = len({(json.dumps(j[0], sort_keys=True), j[1][0]) for j in jobs}) + len(ijobs) + len(wjobs)
    ctx.ev.cov["traces_validated_against_impl"] = len(jobs) + len(ijobs) + len(wjobs)
    ctx.ev.cov["exhaustive"] = True
    ctx.ev.cov["rule"] = ("all 648 points of the enabled lattice for a default-enabled and a default-disabled rule, each written in real configuration "
                          "(formats and id/alias rotated in quick, full product in thorough); the 512 points of the item lattice for representative items; "
                          "a wrongly typed value for every configurable item of every rule at each layer, lenient and strict")
    for j, o in list(zip(jobs, res))[:2]:
        ctx.ev.sample({"point": j[0], "rule": j[1][0], "naming": j[2], "argv": o["argv"], "files": o["files"], "listed_enabled": o["listed"]})
    return ctx


def replay(payload):
    print(json.dumps(payload.get("case"), indent=1))
    c = payload.get("case", {})
    files = [(n, d.encode()) for n, d in c.get("files", [])]
    o = runs.execute([], c["argv"], cfg_files=files, keep_contents=False)
    print("exit:", o["code"], "\nstdout:", o["out"], "\nstderr:", o["err"])
    return 1
