"""C08 -- fix mode preserves meaning: only style changes; content and structure stay.

spec/FixNorm.tla states what may differ between a document and its fixed version, as a relation on block sequences.
The block sequences come from an INDEPENDENT renderer (vendored markdown-it-py), with the text-level normalisation of
the fixing rules applied by the harness; TLC (Trace_FixNorm) decides Equivalent(before, after) for every
(document, configuration): default rule set, each fix-capable rule alone, and the default set with third-party
fix-capable plugins of levels 0, 1 and 5 loaded (the engine, not the rule, writes the file)."""
import os
import re

from .. import canon, corpus, docgen, impl, obs, runs, tlc, tracev
from ..ctx import Ctx, Machinery
from ..evidence import seed
from .c09 import EXTRA_DOCS, default_fixers
from .c12 import EXTRA

_md = canon._md
_WS = re.compile(r"\s+")


def _txt(s):
    s = s.replace("*", " ").replace("_", " ").replace("~", " ")
    return _WS.sub(" ", s).strip().lower()


def _inline(tok):
    """text and link targets of an inline token (markdown-it)"""
    parts, links = [], []
    for ch in tok.children or []:
        if ch.type in ("text", "code_inline", "html_inline"):
            parts.append(ch.content if ch.type != "code_inline" else " " + ch.content.strip() + " ")
        elif ch.type == "softbreak":
            parts.append(" ")
        elif ch.type == "hardbreak":
            parts.append(" <br> ")                 # a hard line break is content: a fix must not add or remove one
        elif ch.type == "link_open":
            links.append("link:" + (ch.attrGet("href") or ""))
        elif ch.type == "image":
            links.append("img:" + (ch.attrGet("src") or ""))
            parts.append(ch.content)
    return _txt("".join(parts)), links


def blocks(text):
    toks = _md.parse(text)
    out = []
    pending = None
    for t in toks:
        ty = t.type
        if ty in ("blockquote_open", "bullet_list_open", "ordered_list_open", "list_item_open"):
            k = {"blockquote_open": "bq(", "bullet_list_open": "ul(", "ordered_list_open": "ol(", "list_item_open": "li("}[ty]
            out.append({"k": k, "t": "", "lv": int(t.attrGet("start") or 1) if k == "ol(" else 0, "links": []})
        elif ty in ("blockquote_close", "bullet_list_close", "ordered_list_close", "list_item_close"):
            k = {"blockquote_close": ")bq", "bullet_list_close": ")ul", "ordered_list_close": ")ol", "list_item_close": ")li"}[ty]
            out.append({"k": k, "t": "", "lv": 0, "links": []})
        elif ty == "heading_open":
            pending = ("h", int(t.tag[1]))
        elif ty == "paragraph_open":
            pending = ("p", 0)
        elif ty == "inline":
            tx, links = _inline(t)
            k, lv = pending or ("p", 0)
            out.append({"k": k, "t": tx, "lv": lv, "links": links})
        elif ty in ("fence", "code_block"):
            # MD010 replaces tabs by spaces also inside code blocks (whitespace normalisation): compare runs of blanks as one
            body = "\n".join(re.sub(r"[ \t]+", " ", l).rstrip() for l in t.content.split("\n")).strip("\n")
            out.append({"k": "code", "t": body, "lv": 0, "links": []})
        elif ty == "hr":
            out.append({"k": "hr", "t": "", "lv": 0, "links": []})
        elif ty == "html_block":
            out.append({"k": "html", "t": _WS.sub(" ", t.content).strip(), "lv": 0, "links": []})
    return out


def _case(job):
    name, data, cfgname, argv0 = job
    try:
        text = data.decode("utf-8")
    except UnicodeDecodeError:
        return {"skip": "undecodable"}
    o = runs.execute([("doc.md", data)], argv0 + ["fix", "doc.md"])
    if o["exc"] or o["code"] not in (0, 3):
        return {"skip": "fix-failed", "code": o["code"], "err": o["err"][-200:]}
    after = o["contents"].get("doc.md", b"")
    if after == data:
        return {"skip": "unchanged"}
    try:
        ta = after.decode("utf-8")
        return {"before": blocks(text.replace("\r\n", "\n")), "after": blocks(ta), "after_text": ta[:1200], "announced": "Fixed:" in o["out"]}
    except Exception as ex:  # pylint: disable=broad-except
        return {"skip": "renderer-error:%s" % type(ex).__name__}


def run(pid, tier):
    ctx = Ctx(pid, tier, "model_checking")
    r = tlc.run("mc/MC_FixNorm", "MC_FixNorm.cfg")
    ctx.ev.add_tlc("MC_FixNorm (Equivalent is an equivalence; level changes allowed, text changes not)", r)
    if not r.ok:
        raise Machinery("FixNorm: %s violated" % r.violated)
    fixers = default_fixers()
    allfix = sorted(corpus.fix_capable_rules())
    docs = [(os.path.relpath(p, impl.REPO)[len("test/resources/rules/"):], corpus.read(p)) for p in corpus.rule_docs()]
    docs += [("extra/" + k, v) for k, v in EXTRA_DOCS.items()] + [("extra2/" + k, v) for k, v in EXTRA.items()]
    gen = docgen.documents(300 if tier == "quick" else 3000, seed(), pool=3000)
    docs += [(n, t.encode("utf-8")) for n, t in gen]
    docs += [(n, t.encode("utf-8")) for n, t in docgen.systematic(seed(), 300 if tier == "quick" else 3000, pool=3000)]
    # fix triggers of every fix-capable rule inside nested structures, after containers that have ended (all of them in both tiers)
    fam = [(n, t.encode("utf-8")) for n, t in docgen.fix_families()]
    docs += fam
    rec = []
    for p in ("vh_rec_fix0", "vh_rec_fix1", "vh_rec_fix5"):
        rec += ["--add-plugin", os.path.join(impl.PLUGINS, p + ".py")]
    import zlib
    jobs = []
    for name, data in docs:
        hk = zlib.crc32(name.encode())
        jobs.append((name, data, "default", []))
        if tier == "thorough" or hk % 3 == 0:
            jobs.append((name, data, "default+third-party-fixers", rec))
        own = name.split("/")[0]
        if own == "extra" and name.split("/")[1][:2] == "md" and name.split("/")[1][2:5].isdigit():
            own = name.split("/")[1][:5]                  # extra/mdNNN-...: that rule alone as well
        if own == "fixfam":
            own = name.split("/")[3][:5]                    # the rule whose trigger the document carries: that rule alone as well
        for rule in allfix:
            r_ = rule.lower()
            if own == r_ or (name.startswith(("extra", "gen/", "sys/")) and (tier == "thorough" and hk % 4 == 0 or (hk + int(r_[2:] if r_[2:].isdigit() else 0)) % 40 == 0)):
                others = [x.lower() for x in allfix if x.lower() != r_]
                jobs.append((name, data, "only:" + r_, ["-d", ",".join(others)] + (["-e", r_] if r_ not in fixers else [])))
    res = impl.pmap(_case, jobs, procs=16, chunksize=8)
    traces, meta = [], []
    skips = {}
    for j, o in zip(jobs, res):
        if "skip" in o:
            skips[o["skip"]] = skips.get(o["skip"], 0) + 1
            continue
        traces.append([{"before": o["before"], "after": o["after"]}])
        meta.append((j, o))
    tr_, verdicts = tracev.validate("trace/Trace_FixNorm", "Trace_FixNorm.cfg", traces, "c08")
    ctx.ev.add_tlc("Trace_FixNorm (%d fixed documents)" % len(traces), tr_)
    ctx.ev.cov["traces_validated_against_impl"] = len(traces)
    for ((name, data, cfgname, _a), o), v in zip(meta, verdicts):
        if v["v"] == "ACCEPT":
            continue
        i = v["pos"]
        b, a = v.get("b"), v.get("a")
        kinds = "%s->%s" % (b["k"] if b else "-", a["k"] if a else "-")
        ctx.violation("%s:%s:%s :: %s" % (v["what"], kinds, cfgname, name),
                      {"document": data.decode("utf-8", "replace")[:1200], "config": cfgname, "fixed": o["after_text"], "block_before": b, "block_after": a, "index": i})
    ctx.ev.cov["evaluations"] = len(jobs)
    ctx.ev.cov["distinct_nontrivial"] = len(traces)
    ctx.ev.parts["not_judged"] = skips
    ctx.ev.cov["rule"] = ("documents (rule resources, cooperating-fix families, fixed generated and systematic pools) x {default set, default + third-party fixers of "
                          "levels 0/1/5, each fix-capable rule alone on its own resources and on a rotation of the others}; non-trivial = documents that fix changed")
    if traces:
        ctx.ev.sample({"document": meta[0][0][0], "config": meta[0][0][2], "blocks_before": meta[0][1]["before"][:4], "blocks_after": meta[0][1]["after"][:4]})
    ctx.ev.assumptions += ["markdown-it-py (vendored) as the independent renderer", "text-level normalisation (whitespace, emphasis delimiters, letter case) applied by the harness"]
    return ctx


def replay(payload):
    c = payload.get("case", {})
    print(repr(c.get("document")))
    print({k: v for k, v in c.items() if k != "document"})
    return 1
