"""C13 -- results for a file do not depend on which files were processed before it.

Model: spec/Obs.tla with key = (document, mode) and value = everything the run says about that document (its reports,
its pragma errors, its fixed bytes).  The solo run binds the verdict; multi-file invocations in which every ordered
pair of pool documents is adjacent once (cyclic sequences with every stride), in scan and in fix mode, and repeated
use of one API object, must agree with it (Trace_Obs)."""
import os
import random
import re

from .. import corpus, impl, obs, runs, tlc
from ..ctx import Ctx, Machinery
from ..evidence import seed
from .c12 import EXTRA

STATEFUL = {   # documents that leave parser / rule state non-initial at end of file, or are sensitive to it
    "unclosed-fence": b"# T\n\n```text\ncode without end\n",
    "open-list": b"# T\n\n1. a\n   - b\n     continued",
    "pending-lrd": b"# T\n\ntext [foo]\n\n[foo]:\n/url\n'unfinished title",
    "lrd-defs": b"# T\n\n[foo]: /url 'title'\n[bar]: /bar\n",
    "lrd-users": b"# T\n\n[foo] and [ foo ] and [bar][] and [x][foo] and ![foo]\n",
    "lrd-other-defs": b"# T\n\n[foo]: /other\n\n[foo] here\n",
    "lrd-then-crash": b"[foo]: /url\n[bar]: /bar\n\n>>- one\n>>\n  >  >   two\n",
    "pragma-then-crash": b"<!-- pyml disable-num-lines 9 md013,md009,md010-->\n\n>>- one\n>>\n  >  >   two\n",
    "headings-dup": b"# Same\n\n## Same\n\n# Same\n",
    "headings-only-h2": b"## Same\n\ntext\n",
    "tilde-fence-first": b"# T\n\n~~~text\na\n~~~\n",
    "backtick-fence-first": b"# T\n\n```text\na\n```\n\n~~~text\nb\n~~~\n",
    "star-list": b"# T\n\n* a\n* b\n",
    "dash-list": b"# T\n\n- a\n- b\n+ c\n",
    "hr-star": b"# T\n\n***\n\n---\n",
    "hr-dash": b"# T\n\n---\n",
    "setext-first": b"Title\n=====\n\ntext\n",
    "atx-closed-first": b"# T #\n\n## U\n",
    "pragma-lines-2-9": b"# T\n<!-- pyml disable-num-lines 8 md013,md010,md018,md009-->\n\nok\n",
    "pragma-next-line-5": b"# T\n\ntext\n<!-- pyml disable-next-line md013-->\nshort\n",
    "plain-long-line-5": b"# T\n\ntext\nmore\n" + b"word " * 20 + b"end\n",
    "plain-tabs-3-6": b"# T\n\n\ttab\n#nospace\ntrail   \n\tagain\n",
    "indented-code-first": b"# T\n\n    code\n\n```text\nx\n```\n",
    "emphasis-open": b"# T\n\n*unclosed emphasis and `unclosed code\n",
    "front-matter-like": b"---\ntitle: x\n---\n\n# T\n",
    "html-open": b"# T\n\n<div>\nunclosed html block\n",
    "bq-list-open": b"# T\n\n> - a\n>   - b\n",
    "proper-names": b"# T\n\nmarkdown and Markdown\n",
}
_NAME = re.compile(r"p\d{3}_d\d{3}\.md")


def _norm(text):
    return _NAME.sub("DOC", text)


def _per_file(o, names):
    """name -> [stdout lines, stderr lines] that mention it"""
    per = {n: [[], []] for n in names}
    for l in o["out"].splitlines():
        for n in names:
            if n in l:
                per[n][0].append(_norm(l))
                break
    for l in o["err"].splitlines():
        for n in names:
            if n in l:
                per[n][1].append(_norm(l))
                break
    return per


def _invocation(job):
    mode, seq, pool = job          # seq: list of pool indices
    files = [("p%03d_d%03d.md" % (k, i), pool[i][1]) for k, i in enumerate(seq)]
    o = runs.execute(files, ["--continue-on-error", mode] + [n for n, _ in files])
    names = [n for n, _ in files]
    per = _per_file(o, names)
    out = []
    for (n, _d), i in zip(files, seq):
        val = {"out": per[n][0], "err": per[n][1]}
        if mode == "fix":
            val["bytes"] = obs.h(o["contents"].get(n, b"").decode("latin-1"))
        out.append((i, val))
    return {"code": o["code"], "exc": o["exc"], "vals": out, "errtail": o["err"][-300:]}


def _api_sequence(job):
    seq, pool = job
    from pymarkdown.api import PyMarkdownApi, PyMarkdownApiException
    api = PyMarkdownApi()
    out = []
    for i in seq:
        text = pool[i][1].decode("utf-8", "replace")
        try:
            r = api.scan_string(text)
            val = sorted((f.line_number, f.column_number, f.rule_id, f.rule_description, f.extra_error_information or "") for f in r.scan_failures)
            perr = sorted((p.line_number, p.pragma_error) for p in r.pragma_errors)
            out.append((i, {"failures": val, "pragma": perr}))
        except PyMarkdownApiException as ex:
            out.append((i, {"exception": str(ex)[:80]}))
    return out


def run(pid, tier):
    ctx = Ctx(pid, tier, "model_checking")
    r = tlc.run("mc/MC_Obs", "MC_Obs.cfg")
    ctx.ev.add_tlc("MC_Obs (a bound verdict never changes)", r)
    if not r.ok:
        raise Machinery("Obs model violates %s" % r.violated)
    rnd = random.Random(seed())
    pool = [("stateful/" + k, v) for k, v in STATEFUL.items()] + [("extra/" + k, v) for k, v in EXTRA.items()]
    want = 61 if tier == "quick" else 127           # primes: every stride gives one cycle through the whole pool
    more = corpus.sample(corpus.rule_docs(), want - len(pool), seed())
    pool += [(os.path.relpath(p, impl.REPO), corpus.read(p)) for p in more]
    n = len(pool)
    jobs = []
    for mode in ("scan", "fix"):
        for i in range(n):
            jobs.append((mode, [i], pool))                       # solo runs bind the verdict
    for mode in ("scan", "fix"):
        for k in range(1, n):
            seq = [(j * k) % n for j in range(n + 1)]            # every ordered pair (x, x+k) adjacent once
            jobs.append((mode, seq, pool))
    if tier == "thorough":                                       # triples: strides (k1, k2)
        for mode in ("scan", "fix"):
            for _ in range(200):
                k1, k2 = rnd.randrange(1, n), rnd.randrange(1, n)
                seq, x = [], 0
                for j in range(n):
                    seq += [x, (x + k1) % n, (x + k1 + k2) % n]
                    x = (x + 1) % n
                jobs.append((mode, seq, pool))
    res = impl.pmap(_invocation, jobs, procs=16, chunksize=1)
    logs = {}     # (doc index) -> list of observation events
    for (mode, seq, _p), o in zip(jobs, res):
        if o["exc"]:
            ctx.violation("run-raised:%s" % mode, {"mode": mode, "sequence": [pool[i][0] for i in seq][:6], "exc": o["exc"]})
            continue
        src = "solo" if len(seq) == 1 else "after:"
        prev = None
        for i, val in o["vals"]:
            s = "solo" if len(seq) == 1 else "%s-run-after:%s" % (mode, pool[prev][0] if prev is not None else "(first)")
            logs.setdefault(i, []).append({"key": mode, "val": obs.h(val), "forbidden": False, "src": s, "_val": val, "_prev": prev})
            prev = i
    # one API object used for the whole pool, several orders
    ajobs = [([i], pool) for i in range(n)] + [([(j * k) % n for j in range(n + 1)], pool) for k in (1, 2, 3, 5, 7, 11)[: (3 if tier == "quick" else 6)]]
    ares = impl.pmap(_api_sequence, ajobs, procs=16, chunksize=1)
    for (seq, _p), out in zip(ajobs, ares):
        prev = None
        for i, val in out:
            s = "solo" if len(seq) == 1 else "api-object-after:%s" % (pool[prev][0] if prev is not None else "(first)")
            logs.setdefault(i, []).append({"key": "api", "val": obs.h(val), "forbidden": False, "src": s, "_val": val, "_prev": prev})
            prev = i
    idx = sorted(logs)
    traces = [[{k: v for k, v in e.items() if not k.startswith("_")} for e in logs[i]] for i in idx]
    tr_, verdicts = obs.validate(traces, "c13")
    ctx.ev.add_tlc("Trace_Obs (%d documents, %d invocations)" % (len(traces), len(jobs) + len(ajobs)), tr_)
    ctx.ev.cov["traces_validated_against_impl"] = len(traces)
    pairs = 0
    for i, v in zip(idx, verdicts):
        pairs += len(logs[i])
        if v["v"] == "ACCEPT":
            continue
        ev = logs[i][v["pos"] - 1]
        first = next(e for e in logs[i] if e["key"] == ev["key"])
        prevname = pool[ev["_prev"]][0] if ev["_prev"] is not None else "(first)"
        ctx.violation("depends-on-history:%s:victim=%s:after=%s" % (ev["key"], pool[i][0], prevname),
                      {"document": pool[i][0], "mode": ev["key"], "processed_after": prevname, "alone": first["_val"], "in_sequence": ev["_val"]})
    ctx.ev.cov["evaluations"] = len(jobs) + len(ajobs)
    ctx.ev.cov["distinct_nontrivial"] = pairs
    ctx.ev.parts["pool_size"] = n
    ctx.ev.parts["ordered_pairs_adjacent"] = 2 * n * (n - 1)
    ctx.ev.cov["rule"] = ("pool of %d documents (stateful families + rule resources); every ordered pair adjacent once per mode via cyclic "
                          "sequences of every stride, plus solo runs and one API object reused; distinct_nontrivial = observations "
                          "(document in a given history) validated" % n)
    ctx.ev.sample({"document": pool[0][0], "observations": traces[0][:4]})
    return ctx


def replay(payload):
    import json
    print(json.dumps(payload.get("case"), indent=1)[:3000])
    return 1
