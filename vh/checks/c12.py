"""C12 -- rules are independent: enabling or disabling one never changes another's reports.

Model: spec/Obs.tla with key = rule (per document) and value = that rule's reports.  For each document the harness
scans with: each rule alone, all rules, the default set, the default set minus each rule.  Each run contributes one
observation per ENABLED rule (its projection of the output, empty list included) and a forbidden observation for any
report of a rule that was not enabled.  TLC (Trace_Obs) accepts a document's log iff one verdict function explains all
runs, i.e. the output with a set enabled is exactly the union of what each rule reports alone."""
import os
import random

from .. import corpus, impl, obs, runs, tlc
from ..ctx import Ctx, Machinery
from ..evidence import seed

EXTRA = {
    "long-line-trailing-space": b"# T\n\n" + b"word " * 16 + b"\n" + b"x" * 79 + b"   \n" + b"y" * 80 + b" \n",
    "pragma-range": b"# T\n\n<!-- pyml disable-num-lines 2 md013-->\n" + b"word " * 17 + b"end \n" + b"word " * 17 + b"end\t\n\ntext\n",
    "pragma-next": b"# T\n\n<!-- pyml disable-next-line md009-->\n" + b"word " * 17 + b"end   \n",
    "tabs-and-spaces": b"# T\n\n-\titem   \n\n\tcode\t \n\ntext \n\nlast",
    "headings": b"# T\n\n### Skip  \n\n#No space\n\nSetext\n===\n\n# T\n",
    "lists": b"# T\n\n* a\n+ b\n  1. c\n  1. d\n-  e\n",
    "links": b"# T\n\n[ text ]( /url ) and ![](/img) and <http://x.y> and http://bare.example\n\n[foo]: /url\n[foo]: /dup\n",
    "html-and-code": b"# T\n\n<div>html</div>\n\n```\ncode without language\n```\n\n    indented   \n\n~~~text\nx\n~~~\n",
    "quote-setext-then-list": b"> Release notes\n> -------------\n>\n> * first change\n> * second change\n\n1. > Nested title\n   > ===\n   > - a\n",
    "list-setext-then-quote": b"- Title in item\n  ---\n\n  > - q\n  >   r\n\n   * over\n",
    "fm-title-no-h1": b"---\ntitle: Release Notes\nauthor: me\n---\n\nThis page lists the changes.\n\n## Section\n",
    "fm-title-and-h1": b"---\ntitle: Release Notes\n---\n\n# Heading\n\n# Second\n\n### Skip\n",
    "fm-no-title": b"---\nauthor: me\n---\n\ntext first\n\n# Heading\n"
}


def _configs():
    rl = obs.rules()
    ids = [r[0] for r in rl]
    dflt = [r[0] for r in rl if r[2]]
    off = [r[0] for r in rl if not r[2]]
    cfgs = [("default", [], set(dflt))]
    cfgs.append(("all", ["-e", ",".join(off)], set(ids)))
    for r in ids:
        others = [x for x in ids if x != r]
        argv = ["-d", ",".join(others)] + ([] if r in dflt else ["-e", r])
        cfgs.append(("only:" + r, argv, {r}))
    for r in dflt:
        cfgs.append(("default-minus:" + r, ["-d", r], set(dflt) - {r}))
    return cfgs


def _doc(job):
    name, data, cfgs = job
    out = []
    for cname, argv, enabled in cfgs:
        # documents named fm-...: the same comparison with the front-matter extension on (rules read the front-matter token)
        pre = ["--set", "extensions.front-matter.enabled=$!True"] if name.startswith("extra/fm-") else []
        o = runs.execute([("doc.md", data)], pre + argv + ["scan", "doc.md"], keep_contents=False)
        fl = obs.parse_failures(o["out"])
        out.append({"cfg": cname, "code": o["code"], "exc": o["exc"], "failures": fl, "err": o["err"][-300:]})
    return out


def run(pid, tier):
    ctx = Ctx(pid, tier, "model_checking")
    r = tlc.run("mc/MC_Obs", "MC_Obs.cfg")
    ctx.ev.add_tlc("MC_Obs (a bound verdict never changes)", r)
    if not r.ok:
        raise Machinery("Obs model violates %s" % r.violated)
    cfgs = _configs()
    if len(cfgs) < 80:
        raise Machinery("rule list incomplete: %d configurations" % len(cfgs))
    rnd = random.Random(seed())
    paths = corpus.rule_docs()
    n = 110 if tier == "quick" else 656
    sel = corpus.sample(paths, n, seed())
    docs = [(os.path.relpath(p, impl.REPO), corpus.read(p)) for p in sel] + [("extra/" + k, v) for k, v in EXTRA.items()]
    res = impl.pmap(_doc, [(n_, d, cfgs) for n_, d in docs], procs=16, chunksize=1)
    traces, keep = [], []
    nontriv = 0
    for (name, data), runs_ in zip(docs, res):
        tr = []
        failed = False
        for (cname, argv, enabled), o in zip(cfgs, runs_):
            if o["exc"] or o["code"] not in (0, 1):
                failed = True       # a crash of the scan itself is C07's business; the document is skipped here
                break
            per = obs.by_rule(o["failures"])
            for rule in sorted(enabled):
                tr.append({"key": rule.upper(), "val": obs.h(per.get(rule.upper(), [])), "forbidden": False, "src": cname})
            for rule in per:
                if rule.lower() not in enabled:
                    tr.append({"key": rule, "val": obs.h(per[rule]), "forbidden": True, "src": cname})
        if failed:
            ctx.ev.parts["documents_skipped_scan_failed"] = ctx.ev.parts.get("documents_skipped_scan_failed", 0) + 1
            continue
        if any(o["failures"] for o in runs_):
            nontriv += 1
        traces.append(tr)
        keep.append((name, runs_))
    tr_, verdicts = obs.validate(traces, "c12")
    ctx.ev.add_tlc("Trace_Obs (%d documents x %d configurations)" % (len(traces), len(cfgs)), tr_)
    ctx.ev.cov["traces_validated_against_impl"] = len(traces)
    for (name, runs_), t, v in zip(keep, traces, verdicts):
        if v["v"] == "ACCEPT":
            continue
        rule = v["key"]
        src = v["src"]
        first = next(e["src"] for e in t if e["key"] == rule)
        def rep(cn):
            o = next(o for (c, _a, _e), o in zip(cfgs, runs_) if c == cn)
            return [f[1:] for f in o["failures"] if f[3] == rule]
        kindsrc = src.split(":")[0]
        ctx.violation("%s:%s:%s-vs-%s" % (v["what"], rule, first.split(":")[0], kindsrc),
                      {"document": name, "rule": rule, "config_a": first, "reports_a": rep(first), "config_b": src, "reports_b": rep(src)})
    ctx.ev.cov["evaluations"] = len(docs) * len(cfgs)
    ctx.ev.cov["distinct_nontrivial"] = nontriv
    ctx.ev.cov["rule"] = ("documents (VERIF_SEED sample of test/resources/rules + families with several rules firing on one line / pragmas) x "
                          "%d configurations (each rule alone, all, default, default minus each); non-trivial = documents with at least one report" % len(cfgs))
    ctx.ev.sample({"document": docs[0][0], "observations": traces[0][:5] if traces else []})
    return ctx


def replay(payload):
    import json
    print(json.dumps(payload.get("case"), indent=1)[:3000])
    return 1
