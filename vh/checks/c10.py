"""C10 -- fix reporting is truthful (changed <=> announced <=> result) and scan is read-only."""
import os

from .. import appscen, corpus, impl, runs
from ..ctx import Ctx
from ..evidence import seed
from . import appcommon


# documents whose only peculiarity is their line endings / final newline: nothing fixable => fix must leave them byte-identical
LINE_END_DOCS = {
    "crlf-clean.md": b"# Title\r\n\r\nSome text here.\r\n",
    "cr-clean.md": b"# Title\r\rSome text here.\r",
    "mixed-clean.md": b"# Title\r\n\nSome text here.\n",
    "crlf-fixable.md": b"# Title\r\n\r\nSome text here.   \r\n",
    "lf-clean.md": b"# Title\n\nSome text here.\n",
    "nbsp-clean.md": "# Title\n\nSome\u00a0text \u2028 here.\n".encode("utf-8"),
}


def _corpus_case(case):
    """case: (mode, [paths], scheme). Run the real command on copies of corpus documents."""
    mode, paths, scheme = case
    files = [("d%02d_%s" % (i, os.path.basename(p)), LINE_END_DOCS[p[len("lineend:"):]] if p.startswith("lineend:") else corpus.read(p)) for i, p in enumerate(paths)]
    names = [n for n, _ in files]
    argv = (["--return-code-scheme", "minimal"] if scheme == "minimal" else [])
    stdin = None
    if mode == "stdin":
        argv += ["scan-stdin"]
        stdin = files[0][1]
    elif mode == "list":
        argv += ["scan", "-l"] + names
    else:
        argv += [mode] + names
    o = runs.execute(files if mode != "stdin" else [], argv, stdin_bytes=stdin)
    # per-file scan results (which rules fire) for the "no fixable failure => untouched" clause
    rules = {}
    if mode == "fix":
        for n, data in files:
            so = runs.execute([(n, data)], ["scan", n], keep_contents=False)
            rules[n] = sorted({l.split(": ")[1] for l in so["out"].splitlines() if ": MD" in l or ": PML" in l}) \
                if so["code"] in (0, 1) and not so["exc"] else None
    o["rules"] = rules
    return o


def _api_case(case):
    """the same truthfulness through the API: fix_path(directory).files_fixed and fix_string(...).was_fixed, both return-code schemes"""
    import shutil
    import tempfile
    _mode, paths, scheme = case
    from pymarkdown.api import PyMarkdownApi, PyMarkdownApiException
    base = tempfile.mkdtemp(prefix="vha-", dir="/dev/shm" if os.path.isdir("/dev/shm") else None)
    out = {"scheme": scheme}
    try:
        files = [("d%02d_%s" % (i, os.path.basename(p)), corpus.read(p)) for i, p in enumerate(paths)]
        for n, data in files:
            with open(os.path.join(base, n), "wb") as f:
                f.write(data)

        def api():
            a = PyMarkdownApi()
            return a.set_string_property("mode.return_code_scheme", "minimal") if scheme == "minimal" else a
        try:
            r = api().fix_path(base)
            changed = []
            for n, data in files:
                with open(os.path.join(base, n), "rb") as f:
                    if f.read() != data:
                        changed.append(n)
            out["path"] = {"reported": sorted(os.path.basename(x) for x in r.files_fixed), "changed": sorted(changed)}
        except PyMarkdownApiException as ex:
            out["path"] = {"error": type(ex).__name__}
        try:
            text = files[0][1].decode("utf-8")
            if text.strip():
                r2 = api().fix_string(text)
                out["string"] = {"was_fixed": bool(r2.was_fixed), "differs": r2.fixed_file != text}
        except (PyMarkdownApiException, UnicodeDecodeError) as ex:
            out["string"] = {"error": type(ex).__name__}
    finally:
        shutil.rmtree(base, ignore_errors=True)
    return out


def run(pid, tier):
    ctx = Ctx(pid, tier, "model_checking")
    appcommon.model_check(ctx)
    cfg = "MC_AppScen_c10_quick.cfg" if tier == "quick" else "MC_AppScen_c10_thorough.cfg"
    scen, obs, traces = appcommon.run_scenarios(ctx, cfg, lambda s: True, {"C10"})
    appcommon.validate(ctx, scen, obs, traces, {"C10"}, appcommon.classify_reject)
    # the fix / scan runs of the repository's own tests (probes on) against the same specification
    appcommon.suite_traces(ctx, tier, {"C10"})

    # ---- real documents: sets of 1..3 corpus files through every mode, validated against Trace_App
    docs = corpus.rule_docs()
    import random
    rnd = random.Random(seed())
    nsets = 150 if tier == "quick" else 1500
    cases = []
    for i in range(nsets):
        k = 1 + i % 3
        paths = rnd.sample(docs, k)
        scheme = "minimal" if i % 4 == 3 else "default"
        cases.append(("fix", paths, scheme))
        if i % 3 == 0:
            cases.append(("scan", paths, scheme))
        if i % 9 == 1:
            cases.append(("stdin", paths[:1], scheme))
        if i % 9 == 2:
            cases.append(("list", paths, scheme))
    for k, nm in enumerate(sorted(LINE_END_DOCS)):
        cases.append(("fix", ["lineend:" + nm], "minimal" if k % 2 else "default"))
        cases.append(("fix", ["lineend:lf-clean.md", "lineend:" + nm], "default"))
    res = impl.pmap(_corpus_case, cases, procs=16)
    fixcap = corpus.fix_capable_rules()
    ctraces = []
    nontriv = set()
    for (mode, paths, scheme), o in zip(cases, res):
        names = o["names"]
        rank = {n: i + 1 for i, n in enumerate(sorted(names))}
        extra = len(o["created"]) + len(o["left"]) + len(o["deleted"])
        ctraces.append(appscen.trace_of({"list": "other"}.get(mode, mode), scheme, False, o["events"], o["code"], rank,
                                        disk=(o["changed"], extra)))
        if o["changed"]:
            nontriv.add(tuple(os.path.basename(p) for p in paths))
        ann = sorted(l[len("Fixed: "):] for l in o["out"].splitlines() if l.startswith("Fixed: "))
        if mode == "fix" and not o["exc"] and o["code"] in (0, 3) and ann != o["changed"]:
            ctx.violation("corpus:announced-vs-changed", {"files": paths, "announced": ann, "changed": o["changed"], "argv": o["argv"]})
        for n, rl in (o.get("rules") or {}).items():
            if rl is not None and not (set(rl) & fixcap) and n in o["changed"]:
                src = paths[names.index(n)]
                shape = os.path.basename(src) if src.startswith("lineend:") else ("empty-file" if not corpus.read(src) else os.path.basename(src))
                ctx.violation("corpus:changed-without-fixable-failure:%s:%s" % (shape, "+".join(rl or ["none"])),
                              {"file": src, "rules_reported_by_scan": rl, "argv": o["argv"]})
    # ---- the API's fix results for the same sets (every third set, alternating schemes)
    acases = [("api", paths, "minimal" if k % 2 else "default") for k, (mode, paths, _s) in enumerate(c for c in cases if c[0] == "fix")
              if k % 3 != 2 and not any(p_.startswith("lineend:") for p_ in paths)]
    ares = impl.pmap(_api_case, acases, procs=16)
    for (_m, paths, scheme), o in zip(acases, ares):
        pth, st = o.get("path") or {}, o.get("string") or {}
        if "reported" in pth and pth["reported"] != pth["changed"]:
            ctx.violation("api:files_fixed-vs-changed:%s" % scheme, {"files": paths, "scheme": scheme, "files_fixed": pth["reported"], "changed_on_disk": pth["changed"]})
        if "was_fixed" in st and st["was_fixed"] != st["differs"]:
            ctx.violation("api:was_fixed-vs-text:%s" % scheme, {"file": paths[0], "scheme": scheme, "was_fixed": st["was_fixed"], "text_differs": st["differs"]})
    ctx.ev.cov["evaluations"] += len(acases)
    ctx.ev.parts["api_fix_runs"] = len(acases)
    tr, verdicts = appscen.validate_traces(ctraces, "corpus")
    ctx.ev.add_tlc("Trace_App (%d corpus runs)" % len(ctraces), tr)
    ctx.ev.cov["traces_validated_against_impl"] += len(ctraces)
    for (mode, paths, scheme), o, t, v in zip(cases, res, ctraces, verdicts):
        if v["v"] != "ACCEPT":
            ctx.violation("corpus:trace-%s:%s:%s" % (v["v"].lower(), mode, v["what"]),
                          {"files": paths, "argv": o["argv"], "verdict": v, "stderr": o["err"][-300:], "trace_tail": t[-6:]})
    ctx.ev.cov["evaluations"] += len(cases)
    ctx.ev.cov["distinct_nontrivial"] += len(nontriv)
    ctx.ev.parts["corpus_runs"] = len(cases)
    ctx.ev.parts["corpus_runs_that_changed_a_file"] = len(nontriv)
    ctx.ev.sample({"corpus_case": [cases[0][0], [os.path.relpath(p, impl.REPO) for p in cases[0][1]], cases[0][2]],
                   "observed_code": res[0]["code"], "changed": res[0]["changed"]})
    ctx.ev.cov["rule"] = ("(a) every scenario TLC prints for MC_AppScen restricted to scan/fix/stdin/list commands; (b) VERIF_SEED-sampled sets of "
                          "1-3 documents of test/resources/rules run through fix/scan/scan-stdin/--list-files; non-trivial = scenario tuples, "
                          "and corpus sets in which at least one file was rewritten")
    ctx.ev.assumptions += ["disk observation by SHA-256 of every file of a private work directory and a private TMPDIR before/after the run"]
    return ctx
replay = appcommon.replay
