"""C11 -- pragmas suppress exactly what they name and are invisible to the parser.

spec/Pragma.tla defines Expected(F, k, cmd): the failures of d+ (d with a pragma inserted as line k) in terms of the
failures F of d.  MC_Pragma checks the relation's own properties for all small instances.  For real documents the
harness scans d, inserts a pragma at an insertion point (between any two lines: inside containers, code blocks,
paragraphs), scans d+, and hands (F, k, command, observed failures, pragma error seen) to TLC (Trace_Pragma), which
evaluates Expected.  The parser side: tokens(d+) must be tokens(d) with positions at/below line k moved one line down,
and in fix mode the pragma line must survive unchanged."""
import io
import os
import zlib
import random

from .. import corpus, docgen, impl, obs, runs, tlc, tracev
from ..ctx import Ctx, Machinery
from ..evidence import seed
from .c12 import EXTRA

FAMILIES = {
    "atx-bad": b"some paragraph\n\n#  My Bad Atx Heading\n\nsome other paragraph\n",
    "long-lines": b"# T\n\n" + b"word " * 18 + b"end\n" + b"word " * 18 + b"end\n" + b"word " * 18 + b"end\n\nshort\n",
    "multi-rule-line": b"# T\n\n" + b"word " * 18 + b"end \n\ttab and trail   \n#nospace\n",
    "fenced": b"# T\n\n```text\ncode line\n" + b"c" * 90 + b"\n```\n\nafter\n",
    "list-and-quote": b"# T\n\n- item one\n  continued   \n- item two\n\n> quote   \n> more\n\nend\n",
    "lrd-abandoned": b"# T\n\n[foo]:\n/url \"title\nabc\n\nend   \n",
    "para-3": b"# T\n\nline one   \nline two\t\nline three \n",
    "indented-code": b"# T\n\n    code   \n    more\t\n\ntext\n",
    "html-block": b"# T\n\n<div>\ninside   \n</div>\n\ntext\n",
    "setext": b"Title   \n=====\n\ntext\n\nSecond\n------\n",
    "blank-runs-above": b"# T\n\n\n\ntext one   \n\n\n\n" + b"word " * 18 + b"end\nmore text   \nend\n",
    "blank-runs-mixed": b"# T\n\n\ttab line\n\n\n\n" + b"word " * 18 + b"end \n\n\n\n#nospace\n\nend   \n",
}


def _aliases():
    m = {}
    for rid, names, _en, _fix in obs.rules():
        m[rid] = names
    return m


def _scan(data, want_tokens=True):
    o = runs.execute([("doc.md", data)], ["scan", "doc.md"], keep_contents=False)
    fl = obs.parse_failures(o["out"])
    ok = not o["exc"] and o["code"] in (0, 1) and "Error" not in o["err"].replace("INLINE", "")
    perr = [l for l in o["err"].splitlines() if "INLINE:" in l]
    return ok, [f for f in fl if f[0] != "?"], perr, o


def _tokens(text):
    """([(token name, line, column)], rendered HTML) or None if the document does not parse"""
    r = impl.parse(text)
    if isinstance(r, tuple) and r and r[0] == "EXC":
        return None
    out = [(t.token_name, t.line_number, t.column_number) for t in r if not t.is_pragma]
    try:
        html = impl.to_html([t for t in r if not t.is_pragma])
    except Exception as ex:  # pylint: disable=broad-except
        html = "HTML-EXC:%s" % type(ex).__name__
    return out, html


def _variants(k, base, aliases, variants):
    """pragma texts for insertion point k: (text, kind, n, ids, malformed)"""
    firing_next = sorted({f[3].lower() for f in base if f[1] == k})        # rules firing on the line that becomes k+1
    firing_near = sorted({f[3].lower() for f in base if k <= f[1] <= k + 2})
    cand = firing_next or firing_near or ["md013"]
    rid = cand[0]
    al = aliases.get(rid, [rid])[0]
    vs = [("<!-- pyml disable-next-line %s-->" % rid, "next", 0, [rid], False),
          ("<!--- pyml disable-next-line %s-->" % al, "next", 0, [rid], False),
          ("<!-- pyml disable-num-lines 2 %s-->  " % ",".join(firing_near[:2] or [rid]), "num", 2, firing_near[:2] or [rid], False)]
    if variants == "all":
        other = "md001" if "md001" not in firing_near else "md044"
        vs += [("<!--\tpyml disable-next-line %s -->" % rid.upper(), "next", 0, [rid], False),
               ("<!-- pyml disable-num-lines 1 %s-->" % al.upper(), "num", 1, [rid], False),
               ("<!-- pyml disable-num-lines 3 %s-->" % rid, "num", 3, [rid], False),
               ("<!--- pyml disable-num-lines 2 %s-->" % rid, "num", 2, [rid], False),          # alternate prefix x range command
               ("<!--- pyml disable-num-lines 3 no-such-rule-->", "bad", 0, [], True),
               ("<!-- pyml disable-next-line %s, %s-->" % (rid, "md047" if rid != "md047" else "md013"), "next", 0, [rid, "md047" if rid != "md047" else "md013"], False),
               ("<!-- pyml disable-next-line %s-->" % other, "next", 0, [other], False)]
    bad = ["<!-- pyml disable-num-lines 0 %s-->" % rid, "<!-- pyml disable-num-lines -1 %s-->" % rid, "<!-- pyml disable-num-lines x %s-->" % rid,
           "<!-- pyml disable-next-line-->", "<!-- pyml disable-num-lines 2-->", "<!-- pyml enable-all %s-->" % rid, "<!-- pyml -->",
           "<!-- pyml disable-next-line no-such-rule-->", "<!-- pyml disable-num-lines 2 no-such-rule-->"]
    for b_ in (bad if variants == "all" else [bad[(k + j) % len(bad)] for j in range(2)]):
        vs.append((b_, "bad", 0, [], True))
    return vs


def _norm(line):
    return " ".join(line.split())


def _observe(name, text, lines, base, base_tok, ins, do_fix):
    """ins: [(k_final, pragma text, kind, n, ids)] sorted by k_final"""
    plus_lines = list(lines)
    for k, ptext, _kind, _n, _ids in ins:             # increasing final positions
        plus_lines.insert(k - 1, ptext)
    plus = "\n".join(plus_lines)
    ok2, fl2, perr2, o2 = _scan(plus.encode("utf-8"))
    ks = [i[0] for i in ins]
    rec = {"pragmas": [{"k": k, "kind": kind, "n": n, "ids": [i.upper() for i in ids]} for k, _t, kind, n, ids in ins],
           "texts": [i[1] for i in ins], "k": ks[0]}
    if not ok2:
        rec["scan_failed"] = o2["err"][-300:]
        return rec
    rec["base"] = [{"line": f[1], "rule": f[3], "col": f[2], "msg": obs.h(f[4])} for f in base]
    rec["observed"] = [{"line": f[1], "rule": f[3], "col": f[2], "msg": obs.h(f[4])} for f in fl2 if f[1] not in ks]
    errs = []
    for l in perr2:
        m = __import__("re").search(r":(\d+):1: INLINE:", l)
        if m:
            errs.append(int(m.group(1)))
    rec["errors"] = sorted(set(errs))
    # parser invisibility: positions of d+ = positions of d moved down past the pragma lines; same HTML
    t2 = _tokens(plus)
    if base_tok is not None and t2 is not None:
        def mv(ln):
            for k in ks:
                if ln >= k:
                    ln += 1
            return ln
        exp = [(nm, mv(ln) if ln else ln, col) for nm, ln, col in base_tok[0]]
        if exp != t2[0]:
            j = next((i for i, (a_, b_) in enumerate(zip(exp, t2[0])) if a_ != b_), min(len(exp), len(t2[0])))
            rec["token_diff"] = {"index": j, "expected": exp[j] if j < len(exp) else None, "observed": t2[0][j] if j < len(t2[0]) else None}
        elif base_tok[1] != t2[1]:
            rec["token_diff"] = {"index": -2, "expected": ["html", base_tok[1][:200]], "observed": ["html", t2[1][:200]]}
    elif (base_tok is None) != (t2 is None):
        rec["token_diff"] = {"index": -1, "expected": ["parse ok" if base_tok is not None else "parse fails"], "observed": ["parse fails" if t2 is None else "parse ok"]}
    # fix mode: every pragma line survives and stays in front of the same line
    if do_fix:
        o3 = runs.execute([("doc.md", plus.encode("utf-8"))], ["fix", "doc.md"])
        if not o3["exc"] and o3["code"] in (0, 3):
            after = o3["contents"].get("doc.md", b"").decode("utf-8", "replace").split("\n")
            na = [_norm(a_) for a_ in after]
            for k, ptext, kind, _n, _ids in ins:
                if _norm(ptext) not in na:
                    rec["fix_lost_pragma"] = ptext
                    break
                j = na.index(_norm(ptext))
                guarded_before = next((_norm(l) for l in plus_lines[k:] if not l.startswith("<!--")), "")
                guarded_after = next((x for x, raw in zip(na[j + 1:], after[j + 1:]) if not raw.startswith("<!--")), "")
                key = lambda s_: "".join(ch for ch in s_ if ch.isalnum())      # fixes change markers and spacing, not words
                if kind != "bad" and key(guarded_before) and key(guarded_before) != key(guarded_after):
                    rec["fix_moved_pragma"] = {"pragma": ptext, "was_in_front_of": guarded_before, "now_in_front_of": guarded_after}
                    break
    return rec


def _doc(job):
    name, data, points, variants, aliases = job
    try:
        text = io.TextIOWrapper(io.BytesIO(data), encoding="utf-8", newline=None).read()
    except UnicodeDecodeError:
        return []
    if "pyml" in text:
        return []
    ok, base, perr, _o = _scan(text.encode("utf-8"))
    if not ok:
        return []
    lines = text.split("\n")
    nl = len(lines)
    base_tok = _tokens(text)
    out = []
    rnd = random.Random(int(__import__("hashlib").sha1(name.encode()).hexdigest()[:6], 16))
    ks = list(range(1, nl + 1))
    if points and len(ks) > points:
        ks = sorted(rnd.sample(ks, points))
    for k in ks:
        vk = variants if variants != "mixed" else ("all" if k % 3 == 0 else "some")
        for vi, (ptext, kind, n, ids, _bad) in enumerate(_variants(k, base, aliases, vk)):
            out.append(_observe(name, text, lines, base, base_tok, [(k, ptext, kind, n, ids)], kind != "bad" and (vk == "all" or vi == 0)))
        # two pragmas with overlapping coverage: a range from k, and a next-line pragma inside the range naming another rule
        if k + 1 <= nl:
            near = sorted({f[3].lower() for f in base if k <= f[1] <= k + 2})
            if near:
                x = near[0]
                y = next((r for r in near if r != x), "md047" if x != "md047" else "md013")
                ins = [(k, "<!-- pyml disable-num-lines 4 %s-->" % x, "num", 4, [x]),
                       (k + 2, "<!-- pyml disable-next-line %s-->" % y, "next", 0, [y])]
                out.append(_observe(name, text, lines, base, base_tok, ins, True))
    return out


def _shape(lines, k):
    """what the pragma line was inserted into"""
    prev = lines[k - 2] if k >= 2 else ""
    nxt = lines[k - 1] if k - 1 < len(lines) else ""
    def cls(l):
        s = l.strip()
        if not s:
            return "blank"
        if l.startswith(">"):
            return "bq"
        if l.startswith(("    ", "\t")):
            return "indented"
        if s.startswith(("```", "~~~")):
            return "fence"
        if s[0] in "-+*" and s[1:2] == " " or s[:2] in ("1.", "1)"):
            return "list"
        if s.startswith("#"):
            return "atx"
        if s.startswith("["):
            return "lrd-like"
        if s.startswith("<"):
            return "html"
        return "text"
    return "%s|%s" % (cls(prev) if k >= 2 else "start", cls(nxt) if k - 1 < len(lines) else "end")


def _cross_file(job):
    """scan / fix  [copy with pragmas, the document]  in one invocation: what is said about / done to the second file must equal its solo run"""
    from .. import obs as obsmod, runs
    name, data = job
    solo = runs.execute([("b_doc.md", data)], ["scan", "b_doc.md"], keep_contents=False)
    if solo["exc"] or solo["code"] not in (0, 1):
        return None
    fails = [f for f in obsmod.parse_failures(solo["out"])]
    rules = sorted({f[3] for f in fails})
    if not rules:
        return None
    head = ("<!-- pyml disable-num-lines 500 %s-->\n<!-- pyml disable-next-line no-such-rule-->\n" % ",".join(r.lower() for r in rules)).encode()
    plus = head + data
    out = {}
    both = runs.execute([("a_plus.md", plus), ("b_doc.md", data)], ["scan", "a_plus.md", "b_doc.md"], keep_contents=False)
    if both["exc"] or both["code"] not in (0, 1) or "Error" in both["err"].replace("INLINE", ""):
        return None            # the copy with pragmas does not scan (the run stops there): C01 / C07's business, no observation about b
    got = sorted(l for l in both["out"].splitlines() if l.startswith("b_doc.md:"))
    want = sorted(l for l in solo["out"].splitlines() if l.startswith("b_doc.md:"))
    if got != want:
        out["scan"] = {"solo": want[:8], "after_pragma_file": got[:8]}
    fsolo = runs.execute([("b_doc.md", data)], ["fix", "b_doc.md"])
    fboth = runs.execute([("a_plus.md", plus), ("b_doc.md", data)], ["fix", "a_plus.md", "b_doc.md"])
    if fsolo["code"] in (0, 3) and fboth["code"] in (0, 3) and "Error" not in fboth["err"] and fsolo["contents"].get("b_doc.md") != fboth["contents"].get("b_doc.md"):
        out["fix"] = {"solo": (fsolo["contents"].get("b_doc.md") or b"")[:300].decode("utf-8", "replace"),
                      "after_pragma_file": (fboth["contents"].get("b_doc.md") or b"")[:300].decode("utf-8", "replace")}
    return out or {"ok": True}


def run(pid, tier):
    ctx = Ctx(pid, tier, "model_checking")
    r = tlc.run("mc/MC_Pragma", "MC_Pragma.cfg")
    ctx.ev.add_tlc("MC_Pragma (the relation's own properties, all small instances)", r)
    if not r.ok:
        raise Machinery("Pragma model violates %s" % r.violated)
    aliases = _aliases()
    docs = [("family/" + k, v) for k, v in FAMILIES.items()] + [("extra/" + k, v) for k, v in EXTRA.items() if b"pyml" not in v]
    ncor, ngen = (60, 60) if tier == "quick" else (656, 600)
    docs += [(os.path.relpath(p, impl.REPO), corpus.read(p)) for p in corpus.sample(corpus.rule_docs(), ncor, seed())]
    docs += [(n, t.encode("utf-8")) for n, t in docgen.documents(ngen, seed(), pool=600)]     # thorough: the whole sub-pool gen/0..599
    jobs = []
    for name, data in docs:
        fam = name.startswith(("family/", "extra/"))
        jobs.append((name, data, 0 if (fam or tier == "thorough") else 4, "all" if fam else ("mixed" if tier == "thorough" else "some"), aliases))
    res = impl.pmap(_doc, jobs, procs=16, chunksize=1)
    traces, meta = [], []
    for (name, data, _p, _v, _a), recs in zip(jobs, res):
        text = io.TextIOWrapper(io.BytesIO(data), encoding="utf-8", newline=None).read() if recs else ""
        lines = text.split("\n")
        for rec in recs:
            where = _shape(lines, rec["k"])
            src = name if name.startswith(("family/", "extra/")) else ("corpus" if not name.startswith("gen/") else "generated")
            rec["pragma"] = " + ".join(rec["texts"])
            rec["kind"] = "+".join(p["kind"] for p in rec["pragmas"])
            if "scan_failed" in rec:
                ctx.violation("scan-of-document-with-pragma-fails:%s:%s" % (where, src), {"document": name, "k": rec["k"], "pragma": rec["pragma"], "stderr": rec["scan_failed"]})
                continue
            if "token_diff" in rec:
                td = rec["token_diff"]
                tk = (td.get("expected") or td.get("observed") or ["?"])
                ctx.violation("parser-sees-pragma:%s:%s" % (where, tk[0] if isinstance(tk, (list, tuple)) else tk),
                              {"document": name, "k": rec["k"], "pragma": rec["pragma"], "first_difference": td, "text": text[:600]})
            if rec.get("fix_lost_pragma"):
                ctx.violation("fix-drops-pragma-line:%s :: %s @%d %s" % (where, name, rec["k"], rec["kind"]), {"document": name, "k": rec["k"], "pragma": rec["pragma"]})
            if rec.get("fix_moved_pragma"):
                ctx.violation("fix-moves-pragma-off-its-line:%s :: %s @%d %s" % (where, name, rec["k"], rec["kind"]),
                              {"document": name, "k": rec["k"], "pragma": rec["pragma"], "detail": rec["fix_moved_pragma"]})
            traces.append([{"base": rec["base"], "pragmas": rec["pragmas"], "observed": rec["observed"], "errors": rec["errors"]}])
            meta.append((name, rec, where, text))
    # ---- a pragma belongs to its file: the same document, scanned / fixed right after a copy that carries pragmas naming its rules
    cj = [(name, data) for name, data in docs if name.startswith(("family/", "extra/")) or zlib.crc32(name.encode()) % (4 if tier == "quick" else 1) == 0]
    cres = impl.pmap(_cross_file, cj, procs=16, chunksize=2)
    ncross = 0
    for (name, _d), o in zip(cj, cres):
        if not o:
            continue
        ncross += 1
        for mode in ("scan", "fix"):
            if o.get(mode):
                ctx.violation("pragma-of-another-file-acts:%s :: %s" % (mode, name), dict(o[mode], document=name))
    ctx.ev.parts["cross_file_pairs"] = ncross
    tr_, verdicts = tracev.validate("trace/Trace_Pragma", "Trace_Pragma.cfg", traces, "c11")
    ctx.ev.add_tlc("Trace_Pragma (%d insertions)" % len(traces), tr_)
    ctx.ev.cov["traces_validated_against_impl"] = len(traces)
    nontriv = 0
    for (name, rec, where, text), v in zip(meta, verdicts):
        if rec["base"]:
            nontriv += 1
        if v["v"] == "ACCEPT":
            continue
        rules = sorted({f["rule"] for f in v.get("missing", [])} | {f["rule"] for f in v.get("extra", [])})
        ctx.violation("%s:%s:%s:%s" % (v["what"], rec["kind"], where, "+".join(rules)),
                      {"document": name, "k": rec["k"], "pragma": rec["pragma"], "missing": v.get("missing"), "unexpected": v.get("extra"), "text": text[:600]})
    ctx.ev.cov["evaluations"] = len(traces)
    ctx.ev.cov["distinct_nontrivial"] = nontriv
    ctx.ev.cov["rule"] = ("documents x insertion points (all for the families, 4 per document otherwise in quick) x pragma forms (both prefixes, id / alias / "
                          "upper case / two ids / rule that does not fire, N in 1..3, malformed: N in {0,-1,x}, missing or unknown ids, unknown or missing command); "
                          "non-trivial = insertions into documents that have failures")
    if traces:
        ctx.ev.sample({"document": meta[0][0], "insertion": {"pragmas": meta[0][1]["pragmas"], "text": meta[0][1]["texts"]}, "observed": meta[0][1]["observed"][:3]})
    return ctx


def replay(payload):
    import json
    print(json.dumps(payload.get("case"), indent=1)[:3000])
    return 1
