"""C03 -- the parse conforms to CommonMark: the rendered HTML has the structure a compliant parser assigns.

spec/MdBlocks.tla is the reference block algorithm as a TLA+ state machine; TLC enumerates every document over the
line alphabets (exhaustively for 2 lines, per (abstract state, line shape) transition with VIEW for 3 lines) and
prints each with the model's block tree.  The real parser's HTML is parsed back into the same canonical tree form and
compared.  A disagreement is a violation only if it is CORROBORATED: the vendored markdown-it-py must give the model's
tree; otherwise the document lies in the contested region (counted, never alarmed)."""
from .. import canon, docspace, impl, psweep
from ..ctx import Ctx, Machinery
from ..evidence import seed


def _one(item):
    text, rec = item
    a = psweep.analyse(text, want=("html",))
    try:
        model = canon.freeze(canon.from_model(rec["tree"]))
    except Exception as ex:  # pylint: disable=broad-except
        model = "MODEL-EXC:%s" % type(ex).__name__
    try:
        mdit = canon.freeze(canon.from_mdit(text))
    except Exception as ex:  # pylint: disable=broad-except
        mdit = "MDIT-EXC:%s" % type(ex).__name__
    return {"exc": a["exc"], "impl": a.get("tree"), "html_exc": a.get("html_exc"), "model": model, "mdit": mdit}


def run(pid, tier):
    ctx = Ctx(pid, tier, "model_checking")
    docs = docspace.model_docs(ctx, tier)
    res = impl.pmap(_one, docs, procs=16, chunksize=200)
    cnt = {"agree": 0, "violation": 0, "contested": 0, "does-not-parse": 0, "model-error": 0}
    nontriv = 0
    for (text, rec), o in zip(docs, res):
        if o["exc"]:
            cnt["does-not-parse"] += 1          # C01's business
            continue
        if isinstance(o["model"], str):
            cnt["model-error"] += 1
            continue
        if o["model"] and any(n[0] in ("bq", "ul", "ol") for n in o["model"]):
            nontriv += 1
        if o["impl"] == o["model"]:
            cnt["agree"] += 1
            continue
        if o["mdit"] != o["model"]:
            cnt["contested"] += 1               # the two references disagree: not judged
            continue
        cnt["violation"] += 1
        sig = "%s :: expected %s :: got %s" % (psweep.doc_shape(text), psweep.kinds(o["model"]) or "(nothing)",
                                               psweep.kinds(o["impl"]) if o["impl"] is not None else "HTML-ERROR")
        ctx.violation(sig, {"document": text, "expected_tree": o["model"], "implementation_tree": o["impl"], "html_error": o["html_exc"]})
    if cnt["model-error"]:
        raise Machinery("%d model trees could not be canonicalised" % cnt["model-error"])
    total = len(docs)
    if cnt["contested"] > 0.05 * total:
        raise Machinery("contested region too large (%d of %d): the model needs repair" % (cnt["contested"], total))
    ctx.ev.cov["traces_validated_against_impl"] = total
    ctx.ev.cov["evaluations"] = total
    ctx.ev.cov["distinct_nontrivial"] = nontriv
    ctx.ev.parts["verdicts"] = cnt
    ctx.ev.cov["rule"] = ("every document TLC enumerates from MdBlocks over the line alphabets of the tier; non-trivial = documents whose model tree "
                          "contains a container; judged only where model and markdown-it-py agree (contested region counted)")
    ctx.ev.sample({"document": docs[len(docs) // 2][0], "model_tree": res[len(docs) // 2]["model"], "implementation_tree": res[len(docs) // 2]["impl"]})
    ctx.ev.assumptions += ["canonical tree forms (vh.canon) of the model output, of the implementation's HTML and of markdown-it's tokens",
                           "inline content of the alphabets is plain text, so block structure alone decides the tree"]
    return ctx


def replay(payload):
    c = payload.get("case", {})
    text = c.get("document", "")
    print(repr(text))
    r = _one((text, {"tree": {"t": "doc", "kids": [], "txt": [], "d": [], "llb": False, "ln": 0, "col": 0}}))
    print("implementation:", r["impl"], "\nmarkdown-it:   ", r["mdit"], "\nexpected (stored):", c.get("expected_tree"))
    return 1
