"""C03 -- the parse conforms to CommonMark: the rendered HTML has the structure a compliant parser assigns.

Inline: spec/MdInline.tla is the specification's emphasis algorithm (flanking rules, delimiter stack, rule of 3); TLC
enumerates every line over {a, space, *, _} up to 6 (quick) / 8 (thorough) characters with the model's HTML; each line is
placed in a paragraph, a heading and a block quote and the implementation's rendering compared (corroborated by
markdown-it, which agrees with the model on all 49 152 lines of length <= 8).

spec/MdBlocks.tla is the reference block algorithm as a TLA+ state machine; TLC enumerates every document over the
line alphabets (exhaustively for 2 lines, per (abstract state, line shape) transition with VIEW for 3 lines) and
prints each with the model's block tree.  The real parser's HTML is parsed back into the same canonical tree form and
compared.  A disagreement is a violation only if it is CORROBORATED: the vendored markdown-it-py must give the model's
tree; otherwise the document lies in the contested region (counted, never alarmed)."""
from .. import canon, docspace, impl, psweep
from ..ctx import Ctx, Machinery
from ..evidence import seed


PRELUDE = "[a]: /url 'title'\n[foo]: /foo\n\n[a] and [foo][]\n"


def _one(item):
    text, rec = item
    impl.parse(PRELUDE, timeout=3)          # another document went through the same parser first: it must leave nothing behind
    a = psweep.analyse(text, want=("html",))
    try:
        model = canon.freeze(canon.from_model(rec["tree"]))
    except Exception as ex:  # pylint: disable=broad-except
        model = "MODEL-EXC:%s" % type(ex).__name__
    try:
        mdit = canon.freeze(canon.from_mdit(text))
    except Exception as ex:  # pylint: disable=broad-except
        mdit = "MDIT-EXC:%s" % type(ex).__name__
    return {"exc": a["exc"], "impl": a.get("tree"), "html_exc": a.get("html_exc"), "proj_exc": a.get("proj_exc"), "model": model, "mdit": mdit}


def _inline_one(rec):
    line = "".join(rec["l"])
    model = "".join(rec["html"])
    out = {}
    for ctxname, text, wrap in (("para", line + "\n", lambda h: (("p", h),)),
                                ("heading", "# " + line + "\n", lambda h: (("h", 1, h),)),
                                ("quote", "> " + line + "\n", lambda h: (("bq", (("p", h),)),))):
        try:
            mdit = canon.freeze(canon.from_mdit(text))
        except Exception:  # pylint: disable=broad-except
            mdit = None
        want = canon.freeze(wrap(model))
        if mdit != want:
            out[ctxname] = ("skip", None)          # not a paragraph in this context (e.g. `***` is a thematic break), or contested
            continue
        a = psweep.analyse(text, want=("html",))
        if a["exc"]:
            out[ctxname] = ("does-not-parse", None)
        elif a.get("proj_exc"):
            out[ctxname] = ("skip", None)          # the harness could not read the HTML back: no verdict
        elif a.get("tree") == want:
            out[ctxname] = ("agree", None)
        else:
            out[ctxname] = ("violation", a.get("tree"))
    return out


def _inline_part(ctx, tier):
    from .. import tlc
    cnt = {"agree": 0, "violation": 0, "skip": 0, "does-not-parse": 0}
    for mod, cfg, what in (("mc/MC_MdInline", "MC_MdInline_7.cfg" if tier == "quick" else "MC_MdInline_8.cfg", "emphasis over {a, space, *, _}"),
                           ("mc/MC_MdInline2", "MC_MdInline2_6.cfg" if tier == "quick" else "MC_MdInline2_7.cfg", "code spans, escapes and emphasis over {a, space, *, `, \\}"),
                           ("mc/MC_MdInline3", "MC_MdInline3_5.cfg" if tier == "quick" else "MC_MdInline3_6.cfg", "inline links and emphasis over {a, [, ], (, ), *}"),
                           ("mc/MC_MdInline4", "MC_MdInline4_2.cfg", "raw HTML open / closing tags: attribute forms x closers"),
                           ("mc/MC_MdInline5", "MC_MdInline5.cfg", "URI and email autolinks, processing instructions, CDATA sections, declarations: bodies x forms")):
        r = tlc.run(mod, cfg, keep_raw=False, timeout=3000)
        ctx.ev.add_tlc("%s (%s; every line, result balanced)" % (mod, what), r)
        if not r.ok:
            raise Machinery("MdInline violates %s" % r.violated)
        recs = [p for p in r.printed if isinstance(p, dict)]
        res = impl.pmap(_inline_one, recs, procs=16, chunksize=200)
        for rec, o in zip(recs, res):
            line = "".join(rec["l"])
            for ctxname, (verdict, tree) in o.items():
                cnt[verdict] += 1
                if verdict == "violation":
                    ctx.violation("inline:%s :: %s" % (ctxname, line),
                                  {"document": line, "context": ctxname, "expected_html": "".join(rec["html"]), "implementation_tree": tree})
        ctx.ev.cov["evaluations"] += 3 * len(recs)
        ctx.ev.cov["traces_validated_against_impl"] += 3 * len(recs)
        ctx.ev.cov["distinct_nontrivial"] += sum(1 for rec in recs if any(h.startswith("<") for h in rec["html"]))
    ctx.ev.parts["inline_verdicts"] = cnt
    return cnt


def run(pid, tier):
    ctx = Ctx(pid, tier, "model_checking")
    _inline_part(ctx, tier)
    docs = docspace.model_docs(ctx, tier)
    res = impl.pmap(_one, docs, procs=16, chunksize=200)
    cnt = {"agree": 0, "violation": 0, "contested": 0, "does-not-parse": 0, "model-error": 0, "projection-error": 0}
    nontriv = 0
    for (text, rec), o in zip(docs, res):
        if o["exc"]:
            cnt["does-not-parse"] += 1          # C01's business
            continue
        if isinstance(o["model"], str):
            cnt["model-error"] += 1
            continue
        if o.get("proj_exc"):
            cnt["projection-error"] += 1        # the harness could not read the implementation's HTML back into a tree: not judged
            continue
        if o["model"] and any(n[0] in ("bq", "ul", "ol") for n in o["model"]):
            nontriv += 1
        if o["impl"] == o["model"]:
            cnt["agree"] += 1
            continue
        if o["mdit"] != o["model"]:
            cnt["contested"] += 1               # the two references disagree: not judged
            continue
        cnt["violation"] += 1
        sig = "%s :: expected %s :: got %s" % (psweep.doc_shape(text), psweep.kinds(o["model"]) or "(nothing)",
                                               psweep.kinds(o["impl"]) if o["impl"] is not None else "HTML-ERROR")
        ctx.violation(sig, {"document": text, "expected_tree": o["model"], "implementation_tree": o["impl"], "html_error": o["html_exc"]})
    if cnt["projection-error"] > 0.002 * len(docs):
        raise Machinery("the HTML projection failed on %d of %d documents" % (cnt["projection-error"], len(docs)))
    if cnt["model-error"]:
        raise Machinery("%d model trees could not be canonicalised" % cnt["model-error"])
    total = len(docs)
    if cnt["contested"] > 0.05 * total:
        raise Machinery("contested region too large (%d of %d): the model needs repair" % (cnt["contested"], total))
    ctx.ev.cov["traces_validated_against_impl"] += total
    ctx.ev.cov["evaluations"] += total
    ctx.ev.cov["distinct_nontrivial"] += nontriv
    ctx.ev.parts["verdicts"] = cnt
    ctx.ev.cov["rule"] = ("every document TLC enumerates from MdBlocks over the line alphabets of the tier; non-trivial = documents whose model tree "
                          "contains a container; judged only where model and markdown-it-py agree (contested region counted)")
    ctx.ev.sample({"document": docs[len(docs) // 2][0], "model_tree": res[len(docs) // 2]["model"], "implementation_tree": res[len(docs) // 2]["impl"]})
    ctx.ev.assumptions += ["canonical tree forms (vh.canon) of the model output, of the implementation's HTML and of markdown-it's tokens",
                           "inline content of the alphabets is plain text, so block structure alone decides the tree"]
    return ctx


def replay(payload):
    c = payload.get("case", {})
    text = c.get("document", "")
    print(repr(text))
    r = _one((text, {"tree": {"t": "doc", "kids": [], "txt": [], "d": [], "llb": False, "ln": 0, "col": 0}}))
    print("implementation:", r["impl"], "\nmarkdown-it:   ", r["mdit"], "\nexpected (stored):", c.get("expected_tree"))
    return 1
