"""C07 -- scan never fails internally; every report is in range, unique and ordered; scans are repeatable.

spec/Report.tla: the failures printed for a file form a sequence accepted by the guards of Failure (line exists,
column within the line or one past its end, sorted by (line, column, rule id), no duplicate) and the run ends
without a plugin error.  Every scan of every document under every rule set is one trace validated by TLC
(Trace_Report); the second scan of the same input must print the same thing (Trace_Obs)."""
import io
import os
import zlib
import random

from .. import corpus, docgen, impl, obs, runs, tlc, tracev
from ..ctx import Ctx, Machinery
from ..evidence import seed
from .c12 import EXTRA
from .c16 import SHAPES


def _rk(rule):
    num = int("".join(c for c in rule if c.isdigit()) or 0)
    return (0 if rule.startswith("MD") else 1000) + num


def _configs(tier):
    rl = obs.rules()
    ids = [r[0] for r in rl]
    off = [r[0] for r in rl if not r[2]]
    cfgs = [("default", []), ("all", ["-e", ",".join(off)])]
    for r in ids:
        others = [x for x in ids if x != r]
        cfgs.append(("only:" + r, ["-d", ",".join(others)] + ([] if r not in off else ["-e", r])))
    return cfgs


def _scan(job):
    name, data, cfgs = job
    text = io.TextIOWrapper(io.BytesIO(data), encoding="utf-8", newline=None).read()
    lines = text.split("\n")
    lens = [len(l) for l in lines]
    vlens = [len(l.expandtabs(4)) for l in lines]
    out = []
    for cname, argv in cfgs:
        o = runs.execute([("doc.md", data)], argv + ["scan", "doc.md"], keep_contents=False)
        o2 = runs.execute([("doc.md", data)], argv + ["scan", "doc.md"], keep_contents=False) if cname in ("default", "all") else None
        fl = obs.parse_failures(o["out"])
        ok = (not o["exc"]) and o["code"] in (0, 1) and "BadPluginError" not in o["err"] and "Unexpected Error" not in o["err"]
        parser_failed = "BadTokenizationError" in o["err"]
        out.append({"cfg": cname, "failures": fl, "ok": ok, "parser_failed": parser_failed, "err": o["err"][-400:], "code": o["code"],
                    "repeat_same": None if o2 is None else (o2["out"] == o["out"] and o2["code"] == o["code"]),
                    "out2": None if o2 is None else o2["out"][-300:]})
    return {"lens": lens, "vlens": vlens, "runs": out}


def _multi(job):
    """several files in ONE invocation (all rules): the scan must not fail internally and must say about each file what its solo scan says"""
    names, datas, argv = job
    files = [("m%02d.md" % i, d) for i, d in enumerate(datas)]
    o = runs.execute(files, argv + ["scan"] + [n for n, _ in files], keep_contents=False)
    per = {}
    for f in obs.parse_failures(o["out"]):
        per.setdefault(f[0], []).append(f[1:])
    return {"ok": (not o["exc"]) and o["code"] in (0, 1) and "BadPluginError" not in o["err"] and "Unexpected Error" not in o["err"],
            "err": o["err"][-400:], "per": {n: per.get("m%02d.md" % i, []) for i, n in enumerate(names)}}


def run(pid, tier):
    ctx = Ctx(pid, tier, "model_checking")
    r = tlc.run("mc/MC_Report", "MC_Report.cfg")
    ctx.ev.add_tlc("MC_Report (guards imply in-range, sorted, duplicate-free)", r)
    if not r.ok:
        raise Machinery("Report model violates %s" % r.violated)
    cfgs = _configs(tier)
    n_gen, n_cor = (500, 150) if tier == "quick" else (docgen.POOL, 656)
    docs = [("shape/" + k, v) for k, v in SHAPES.items()] + [("extra/" + k, v) for k, v in EXTRA.items()]
    docs += [(os.path.relpath(p, impl.REPO), corpus.read(p)) for p in corpus.sample(corpus.rule_docs(), n_cor, seed())]
    docs += [(os.path.relpath(p, impl.REPO), corpus.read(p)) for p in corpus.sample(corpus.project_docs(), 20 if tier == "quick" else 86, seed())]
    docs += [(n, t.encode("utf-8")) for n, t in docgen.documents(n_gen, seed())]
    sys_all = [(n, t.encode("utf-8")) for n, t in docgen.systematic(seed(), docgen.SYS_POOL)]
    sys_pick = {n for n, _t in docgen.systematic(seed(), 700 if tier == "quick" else docgen.SYS_POOL)}
    docs += [(n, t.encode("utf-8")) for n, t in docgen.fix_families()]        # nested, ordinary-looking documents: all of them in both tiers
    docs += [(n, t.encode("utf-8")) for n, t in docgen.repeat_families()]     # the same construct three times (rules with memory, unique reports)
    docs += sys_all          # quick: the whole systematic pool under "all rules"; the rotation of single rules on a subset
    rnd = random.Random(seed())
    jobs = []
    for k, (name, data) in enumerate(docs):
        # default + all for every document; each rule alone on a rotating slice
        single = cfgs[2:]
        per = 6 if tier == "quick" else 46
        base = int(__import__("hashlib").sha1(name.encode()).hexdigest()[:6], 16)
        mine = cfgs[:2] + [single[(base + j * 7) % len(single)] for j in range(per)]
        if name.startswith("sys/") and name not in sys_pick:
            mine = cfgs[1:2]
        jobs.append((name, data, mine))
    res = impl.pmap(_scan, jobs, procs=16, chunksize=2)
    traces, meta = [], []
    otraces = []
    skipped = 0
    for (name, data, mine), rr in zip(jobs, res):
        for o in rr["runs"]:
            if o["parser_failed"]:
                skipped += 1          # the document does not parse: C01's business (the property is about parseable documents)
                continue
            tr = [{"ev": "begin", "lens": rr["lens"], "vlens": rr["vlens"]}]
            for f in o["failures"]:
                if f[0] == "?":
                    tr.append({"ev": "failure", "line": -1, "col": -1, "rk": 0, "rule": "?", "msg": f[4][:80]})
                else:
                    tr.append({"ev": "failure", "line": f[1], "col": f[2], "rk": _rk(f[3]), "rule": f[3], "msg": f[4]})
            tr.append({"ev": "end", "ok": bool(o["ok"])})
            traces.append(tr)
            meta.append((name, o))
            if o["repeat_same"] is not None:
                otraces.append([{"key": "output", "val": "first", "forbidden": False, "src": "scan 1"},
                                {"key": "output", "val": "first" if o["repeat_same"] else "different", "forbidden": False, "src": "scan 2"}])
    # ---- several files per invocation: family and shape documents in groups of 7 (long ones first), under "all rules"
    solo = {name: next((o for o in rr["runs"] if o["cfg"] == "all"), None) for (name, _d, _m), rr in zip(jobs, res)}
    cand = [(name, data) for (name, data, _m) in jobs if name.startswith(("fixfam/", "shape/", "extra/", "repeat/")) and solo.get(name) and solo[name]["ok"]]
    cand.sort(key=lambda nd: (zlib.crc32(nd[0].encode()) % 97, -len(nd[1])))
    groups = [cand[i:i + 7] for i in range(0, len(cand), 7)]
    groups = [sorted(g, key=lambda nd: -len(nd[1])) for g in groups]
    mres = impl.pmap(_multi, [([n for n, _ in g], [d for _, d in g], cfgs[1][1]) for g in groups], procs=16, chunksize=2)
    for g, o in zip(groups, mres):
        if not o["ok"]:
            ctx.violation("multi-file-scan-fails:%s" % "+".join(n.split("/")[0] for n, _ in g[:1]) + ":" + g[0][0],
                          {"documents": [n for n, _ in g], "stderr": o["err"]})
            continue
        for n, _d in g:
            want = [tuple(f[1:]) for f in solo[n]["failures"]]
            got = [tuple(f) for f in o["per"][n]]
            if sorted(want) != sorted(got):
                ctx.violation("multi-file-scan-differs-from-solo:" + n, {"document": n, "scanned_with": [x for x, _ in g], "solo": want[:8], "together": got[:8]})
    ctx.ev.parts["multi_file_invocations"] = len(groups)
    ctx.ev.cov["evaluations"] = ctx.ev.cov.get("evaluations", 0) + len(groups)
    tr_, verdicts = tracev.validate("trace/Trace_Report", "Trace_Report.cfg", traces, "c07")
    ctx.ev.add_tlc("Trace_Report (%d scans)" % len(traces), tr_)
    tr2, v2 = obs.validate(otraces, "c07r")
    ctx.ev.add_tlc("Trace_Obs (%d repeated scans)" % len(otraces), tr2)
    ctx.ev.cov["traces_validated_against_impl"] = len(traces) + len(otraces)
    nontriv = 0
    for (name, o), t, v in zip(meta, traces, verdicts):
        if o["failures"]:
            nontriv += 1
        if v["v"] == "ACCEPT":
            continue
        ev = t[v["pos"] - 1] if v["pos"] - 1 < len(t) else {}
        src = name
        if v["what"] == "end":
            import re
            m = re.search(r"Plugin id '(\w+)' had a critical failure during the '(\w+)' action", o["err"])
            sig = "plugin-error:%s:%s" % ((m.group(1), m.group(2)) if m else ("?", "?"))
            data = next(d for n_, d, _c in jobs if n_ == name)
            argv = next(a for cn, a in cfgs if cn == o["cfg"])
            sig += ":" + _where(data, argv) + ":" + name
            ctx.violation(sig, {"document": name, "config": o["cfg"], "stderr": o["err"], "text": _doc_text(jobs, name)})
        else:
            if False:
                tl = _doc_text(jobs, name).split("\n")
                ln = ev["line"]
                k = ln
                while k > 1 and k - 2 < len(tl) and tl[k - 2].strip(" >") and tl[k - 1].strip(" >"):
                    k -= 1            # first line of the run of non-blank lines the reported line belongs to
                before = "\n".join(tl[k - 1:ln - 1])
                feat = "after-inline-element" if any(ch in before for ch in "[`<&\\") or "http" in before else "plain-text-before"
                src = "generated:%s:line-%s-of-its-paragraph:%s" % (_container_class(tl[ln - 1]) if ln - 1 < len(tl) else "past-end",
                                                                     min(ln - k + 1, 3) if ln - k + 1 < 3 else "3+", feat)
            ctx.violation("%s:%s:%s" % (v["what"], ev.get("rule"), src),
                          {"document": name, "config": o["cfg"], "report": ev, "line_lengths": t[0]["lens"][:40], "text": _doc_text(jobs, name)})
    k = 0
    for (name, o) in meta:
        if o["repeat_same"] is None:
            continue
        if v2[k]["v"] != "ACCEPT":
            ctx.violation("second-scan-differs:%s" % o["cfg"], {"document": name, "config": o["cfg"], "second": o["out2"]})
        k += 1
    ctx.ev.cov["evaluations"] = len(traces)
    ctx.ev.cov["distinct_nontrivial"] = nontriv
    ctx.ev.parts["scans_skipped_document_does_not_parse"] = skipped
    ctx.ev.cov["rule"] = ("documents (shapes, families, rule resources, project documentation, %d generated) x {default, all rules, each rule alone in "
                          "rotation}; non-trivial = scans that printed at least one failure" % n_gen)
    ctx.ev.sample({"document": meta[0][0], "config": meta[0][1]["cfg"], "trace": traces[0][:4]})
    return ctx


def _where(data, argv):
    """innermost pymarkdown frame and exception type of a plugin error (re-run with --stack-trace)"""
    import re
    o = runs.execute([("doc.md", data)], ["--stack-trace"] + argv + ["scan", "doc.md"], keep_contents=False)
    frames = re.findall(r'File "[^"]*/pymarkdown/([^"]+)", line \d+, in (\w+)', o["err"])
    excs = re.findall(r"^(\w+(?:Error|Exception)): ?(.*)$", o["err"], re.M)
    inner = next((e for e in excs if e[0] not in ("BadPluginError",)), ("?", ""))
    fr = [f for f in frames if not f[0].startswith(("plugin_manager/", "file_scan_helper", "main.py"))]
    return "%s@%s" % (inner[0], "%s:%s" % fr[-1] if fr else "?")


def _container_class(line):
    s = line.lstrip(" ")
    ind = len(line) - len(s)
    cls = []
    if s.startswith(">"):
        cls.append("bq")
    if ind >= 2 or s[:2] in ("- ", "* ", "+ ") or (s[:1].isdigit() and s[1:3] in (". ", ") ")):
        cls.append("list")
    return "+".join(cls) or "top"


def _doc_text(jobs, name):
    for n, d, _ in jobs:
        if n == name:
            return d.decode("utf-8", "replace")[:1500]
    return ""


def replay(payload):
    import json
    c = payload.get("case", {})
    print(json.dumps({k: v for k, v in c.items() if k != "text"}, indent=1)[:3000])
    if "text" in c:
        o = runs.execute([("doc.md", c["text"].encode("utf-8"))], ["scan", "doc.md"], keep_contents=False)
        print("exit:", o["code"], "\nstdout:", o["out"], "\nstderr:", o["err"])
    return 1
