"""C02 -- the token stream is lossless: Markdown regenerated from the tokens equals the source, character for character.

The verdict is an identity between two observations of the implementation (no model output is involved).  The TLA+
specification contributes the space and the localisation: every document TLC enumerates from spec/MdBlocks.tla (so:
every (parser state, line shape) transition) AND every line-prefix of it, concretised with ASCII text and with the
characters the implementation uses in-band (\\a \\b \\x02 \\x03 \\x05, U+8268, U+8269, U+00FE) and other non-ASCII letters;
plus the fixed generated / systematic / repository pools.  A mismatch is keyed by the document shape and the shape of the
first differing line."""
from .. import docspace, impl, psweep
from ..ctx import Ctx, Machinery
from ..evidence import seed

FILLS = ["a", "þ", "艨", "艩", "\a", "\b", "\x02", "\x03", "\x05", "é中", "&amp;", "\\"]


def _fill_effect(text, rt, fill, twin):
    """how the regenerated text differs for a document whose letters were replaced by an in-band / non-ASCII character"""
    if rt == text.replace(fill, ""):
        return "deleted"
    if twin is not None:
        b = psweep.analyse(twin, want=("rt",))
        if not b["exc"] and "rt_exc" not in b and b["rt"] != twin and b["rt"].replace("a", fill) == rt:
            return "as-ascii-twin"                      # the same (structural) difference as with plain letters: the twin's finding
    for g in ("\\" + fill, "&amp;", "&", "\ufffd", "?"):
        if g != fill and rt == text.replace(fill, g):
            return "replaced-by-%r" % g
    return None


def _one(item):
    name, text = item[0], item[1]
    a = psweep.analyse(text, want=("rt",))
    if a["exc"]:
        return {"skip": "does-not-parse"}
    if "rt_exc" in a:
        return {"rt_exc": a["rt_exc"]}
    if a["rt"] == text:
        return {"ok": True}
    if len(item) > 2:
        eff = _fill_effect(text, a["rt"], item[2], item[3])
        if eff:
            return {"ok": False, "fill_effect": eff, "fill": item[2], "regenerated": a["rt"][:400]}
    src, out = text.split("\n"), a["rt"].split("\n")
    k = next((i for i, (x, y) in enumerate(zip(src, out)) if x != y), min(len(src), len(out)))
    return {"ok": False, "line": k + 1, "source_line": src[k] if k < len(src) else None, "regenerated_line": out[k] if k < len(out) else None,
            "regenerated": a["rt"][:400]}


def run(pid, tier):
    ctx = Ctx(pid, tier, "model_checking")
    model = docspace.model_docs(ctx, tier)
    docs, seen = [], set()
    for text, _rec in model:
        lines = text[:-1].split("\n")
        for n in range(1, len(lines) + 1):                 # every prefix: the generator must be right after each line
            for t in ("\n".join(lines[:n]) + "\n", "\n".join(lines[:n])):
                if t not in seen:
                    seen.add(t)
                    docs.append(("", t))
    # the same structures with in-band / non-ASCII characters as text
    base = [t for _n, t in docs if "a" in t]
    import zlib
    step = 40 if tier == "quick" else 4                   # chosen by a hash of the text, so that quick's choice is a subset of thorough's
    for t in base:
        hk = zlib.crc32(t.encode("utf-8"))
        if hk % step:
            continue
        for f in (FILLS[1:] if tier == "thorough" else [FILLS[1 + (hk // 40 + j) % (len(FILLS) - 1)] for j in range(2)]):
            t2 = t.replace("a", f)
            if t2 not in seen:
                seen.add(t2)
                docs.append(("", t2, f, t))
    docs += docspace.other_docs(tier, seed())
    res = impl.pmap(_one, docs, procs=16, chunksize=200)
    cnt = {"identical": 0, "differs": 0, "does-not-parse": 0, "generator-error": 0}
    for item, o in zip(docs, res):
        name, text = item[0], item[1]
        if o.get("skip"):
            cnt["does-not-parse"] += 1
            continue
        if "rt_exc" in o:
            cnt["generator-error"] += 1
            ctx.violation("regeneration-raises:%s :: %s" % (o["rt_exc"].split(":")[0], name or psweep.doc_shape(text)), {"document": text, "error": o["rt_exc"]})
            continue
        if o["ok"]:
            cnt["identical"] += 1
            continue
        cnt["differs"] += 1
        if o.get("fill_effect") == "as-ascii-twin":
            cnt["differs-as-ascii-twin"] = cnt.get("differs-as-ascii-twin", 0) + 1
            continue
        if o.get("fill_effect"):
            # one root cause per (character, effect): the implementation uses the character in-band
            ctx.violation("differs:special-chars:%r:%s" % (o["fill"], o["fill_effect"]), {"document": text, "regenerated": o["regenerated"]})
            continue
        where = psweep.shape(o["source_line"]) if o["source_line"] is not None else "past-end"
        nonascii = "" if text.isascii() and not any(ord(c) < 9 for c in text) else ":special-chars"
        ctx.violation("differs%s :: %s :: line %d %s" % (nonascii, name or psweep.doc_shape(text), o["line"], where),
                      {"document": text, "first_difference": {k: o[k] for k in ("line", "source_line", "regenerated_line")}, "regenerated": o["regenerated"]})
    ctx.ev.cov["traces_validated_against_impl"] = len(docs)
    ctx.ev.cov["evaluations"] = len(docs)
    ctx.ev.cov["distinct_nontrivial"] = cnt["identical"] + cnt["differs"]
    ctx.ev.parts["verdicts"] = cnt
    ctx.ev.cov["rule"] = ("every document TLC enumerates from MdBlocks and each of its line prefixes, with and without final newline, text concretised to ASCII and to "
                          "in-band / non-ASCII characters; fixed generated, systematic and repository pools; non-trivial = documents that parse")
    ctx.ev.sample({"document": docs[len(docs) // 3][1], "result": res[len(docs) // 3]})
    ctx.ev.assumptions += ["the oracle is the identity TransformToMarkdown(tokens(d)) = d; the specification supplies the space and the localisation only"]
    return ctx


def replay(payload):
    c = payload.get("case", {})
    text = c.get("document", "")
    print(repr(text)); print(_one(("", text)))
    return 1
