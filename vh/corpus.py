"""Document pools taken from the repository at run time (nothing is cached in /verif)."""
import glob
import os
import random

from . import impl


def rule_docs():
    return sorted(glob.glob(os.path.join(impl.REPO, "test", "resources", "rules", "**", "*.md"), recursive=True))


def project_docs():
    out = []
    for pat in ("newdocs/src/*.md", "newdocs/src/**/*.md", "docs/*.md", "*.md", "test/resources/*.md"):
        out += glob.glob(os.path.join(impl.REPO, pat), recursive=True)
    return sorted(set(out))


def read(path):
    with open(path, "rb") as f:
        return f.read()


def sample(items, n, seed):
    items = list(items)
    rnd = random.Random(seed)
    if n >= len(items):
        return items
    return sorted(rnd.sample(items, n))


_FIXCAP = None


def fix_capable_rules():
    """ids (upper case) of the rules that offer a fix, read from `plugins list --all`."""
    global _FIXCAP
    if _FIXCAP is None:
        r = impl.run_cli(["plugins", "list", "--all"], want_events=False)
        ids = set()
        for line in r.out.splitlines():
            parts = line.split()
            if len(parts) >= 6 and parts[0].lower().startswith(("md", "pml")) and parts[-1] in ("Yes", "No"):
                if parts[-1] == "Yes":
                    ids.add(parts[0].upper())
        _FIXCAP = ids
    return _FIXCAP
