"""Fault seams for the implementation (in-process)."""
import os

from . import impl  # noqa: F401  (sets sys.path / guard)

PARSE_CALLS = {"n": 0}
_installed = False


def install_parser_fault():
    """Make the block pass of the real parser raise when the source contains FAULT-PARSER or at the
    n-th parser invocation of the process (env VH_PARSE_FAULT=n, 0-based).  The exception is raised
    inside TokenizedMarkdown.__transform's try block, so the real error path (BadTokenizationError,
    probe events) is exercised."""
    global _installed
    if _installed:
        return
    from pymarkdown.general.tokenized_markdown import TokenizedMarkdown
    name = "_TokenizedMarkdown__parse_blocks_pass"
    orig = getattr(TokenizedMarkdown, name)

    def wrapped(self, do_add_end_of_stream_token):
        n = PARSE_CALLS["n"]
        PARSE_CALLS["n"] = n + 1
        if os.environ.get("VH_FAULT_LOG") == "1":
            from pymarkdown.general import verif_probe
            verif_probe.emit("vh_tick", kind="parse", n=n)
        want = os.environ.get("VH_PARSE_FAULT", "")
        if want != "" and int(want) == n:
            raise RuntimeError("injected parser fault at invocation %d" % n)
        sp = getattr(self, "_TokenizedMarkdown__source_provider")
        lines = getattr(sp, "_FileSourceProvider__read_lines", None)
        if lines is not None and any("FAULT-PARSER" in x for x in lines):
            raise RuntimeError("injected parser fault: FAULT-PARSER")
        return orig(self, do_add_end_of_stream_token)

    setattr(TokenizedMarkdown, name, wrapped)
    _installed = True


def reset_counters():
    PARSE_CALLS["n"] = 0
    import sys
    mod = sys.modules.get("vh_faulty")
    if mod is not None:
        mod.reset_counts()
