"""Alphabets of the MdBlocks model checking configurations; `python -m vh.mdblocks_gen` rewrites spec/mc/MC_MdBlocks*.tla.
A line alphabet is  indents x container-marker prefixes x bodies  (strings); the generated modules hold them as data."""
import os

from . import tlc

ALPHABETS = {
    # name: (indents, markers, bodies)
    "Q": (["", "   ", "    ", "\t"], ["", "> ", ">", "- ", "-", "1. ", "-\t"], ["", "a", "# a", "```", "---", "    a", "==="]),
    "F": (["", " ", "   ", "    ", "\t"], ["", "> ", ">", "- ", "-", "1. ", "1)", "-\t", "-     "], ["", "a", "# a", "```", "---", "    a", "==="]),
    # deeper nesting, fewer bodies: two markers per line
    "N": (["", "  "], ["", "> ", "- ", "> > ", "> - ", "- > ", "- - ", "1. ", "   "], ["", "a", "# a", "```", "***"]),
    # three levels of containers opened on one line, continuation lines that are only markers plus blanks
    "D": ([""], ["", "> ", ">", "> - ", "> - > ", "> 1. > ", "- > ", "- > - > "], ["", "x", "  ", "   ", "    ", "     ", "# x", "```"]),
    # ordered lists whose numbers have different widths, empty items
    "O": (["", "   "], ["9. ", "10. ", "10.", "9.", "100. ", "1. ", ""], ["", "a"]),
    # tabs inside block quote / list prefixes, mixed with untabbed and lazy lines
    # reference-link syntax without definitions: plain text for the block model (a definition leaking in from elsewhere shows)
    "R": ([""], ["", "> ", "- "], ["[a]", "[a][]", "[ foo ]", "a", ""]),
    # HTML blocks: kinds 2 (comment), 6 (block tag), 7 (other complete tag alone on the line)
    "H": (["", "    "], ["", "> ", "- "], ["", "a", "<div>", "</div>", "<!-- c -->", "<!--", "c -->", "<a>", "<b>x", "<div> a"]),
    # link reference definitions: complete, split over lines, with titles, failing ones, followed by setext underlines, and uses
    "L": ([""], ["", "> ", "- "], ["", "a", "[a]", "[a]: /u", "[a]:", "/u", "'t'", "[a]: /u 't'", "[a]: /u 't", "===", "[b]: /v x"]),
    "M": ([""], [""], ["", "a", "[a]", "[a]: /u", "[a]:", "/u", "'t'", "[a]: /u 't'", "[a]: /u 't", "===", "---", "[b]: /v x", "[a][b]", "[A]: /w"]),
    # list markers followed by 1-3 blanks (items of one list with different content offsets), containers starting on the marker line
    "G": ([""], ["- ", "-  ", "-   ", "1. ", "1.  ", "10. ", " - "], ["a", "> b", "- c", "", "# h"]),
    # HTML blocks of kinds 1 (script / style), 3 (processing instruction), 4 (declaration), 5 (CDATA): start lines, end lines, both on one line
    "S": (["", "    "], ["", "> ", "- "], ["", "a", "<script>", "</script>", "<script>x</script> y", "<?a", "?>", "<?a?> b", "<!X", "y>", "<![CDATA[", "]]>", "<style", "<STYLE>"]),
    "T": ([""], ["> >\t", ">\t> ", "> > ", "", "> >", "\t> ", "- \t> ", "> ", "-\t", ">\t"], ["a", ""]),
}


# positional alphabets: the set of lines allowed at each line number (targeted families that need 5-6 lines)
POSITIONAL = {
    # a list item with a paragraph, a blank line and 0-3 link reference definitions, followed by a sibling item / nested list / quote / text
    "K": [["- a", "- [a] [b]", "1. a"], ["", "  b"], ["  [a]: /u", "  [b]: /v", "", "  c"], ["  [a]: /u", "  [b]: /v", "", "  c"],
          ["  [b]: /v", "", "- c", "  - n"], ["- c", "  - n", "  > q", "c", "", "2. d"]],
    # every tag name of HTML block start condition 6 (except those the harness's HTML-to-tree projection reads as structure: p, ul, ol,
    # li, blockquote, h1-h6, hr), after a paragraph line or at the start, as open / closing / attributed tag
    "B": [["a", ""], [f.replace("TAG", t) for t in "address article aside base basefont body caption center col colgroup dd details dialog dir div dl dt fieldset figcaption figure footer form frame frameset head header html iframe legend link main menu menuitem nav noframes optgroup option param section summary table tbody td tfoot th thead title tr track".split() for f in ("<TAG>", "</TAG>", "<TAG x>")], ["x", ""]],
    # list items of one list with different content offsets, then a marker of another kind indented between the two offsets
    "W": [["9. a", "1. a", "- a", "8. a"], ["10. b", "2.  b", "-   b", "9. b"], ["   - c", "  - c", "    - c", "  1. c", "   * c", " - c", "", "10. c"],
          ["   - d", "  1. d", ""]],
    # an item with an indented continuation line, then an item that opens a block quote on its marker line, whose next quote line is
    # not a paragraph continuation
    "X": [["1. a", "- a"], ["   b", "  b", ""], ["2. > q", "- > q", "2. >", "- > # h"], ["   >", "  >", "   > # h", "  > ```", "   > r"],
          ["   > s", "  > s", "", "   > ```"]],
    # three nested lists, then a marker of another kind at the column of the middle list, then an indented leaf
    "Y": [["- a", "1. a"], ["  1. b", "   1. b", "  - b", "   - b"], ["     - c", "      1. c", "    - c"], ["    + z", "     - z", "   + z", "    1) z"],
          ["    # y", "     # y", "    <div>", "    y", ""]],
    # an HTML block of kind 1 / 3 / 4 / 5 opened at top level or inside a container, a line (blank, text, lazy, only a quote marker, another
    # start), an end line (matching or not, inside or outside the container), and what follows
    "Z": [["<script>", "<?", "<!X", "<![CDATA[", "> <script>", "- <?", "> <!X", "- <![CDATA[", "a"], ["", "b", ">", "> b", "  b", "<script>", "<?"],
          ["", "</script>", "?>", "]]>", "c>", "> ?>", "  </script>", "  ]]>", "> ]]> d"], ["", "e", "> e", "  e", "- e"]],
    # containers three deep opened on one line, continued, then a blank line of the outer container and a line that belongs only to it
    "P": [["> 1. > q", "> - > q", "- 1. > q", "> > 1. q", "1. > - q"], [">    > 1. i", ">   > - i", ">    > m", ">    > > d", "  1. > m", "     > - i"],
          [">", "", "> >"], ["> t", "t", ">    t", "> 2. n", "> - n", "  t"]],
    # the same inside a block quote, and definitions between two paragraphs at top level
    "J": [["> a", "> [a]", "a"], ["", ">", "> b"], ["> [a]: /u", "[a]: /u", ">", "> c"], ["> [b]: /v", "[b]: /v", "> 't'", ""],
          ["> c", "c", "> - d", "", "> [a]"]],
}


def module_pos(name, alpha):
    pos = POSITIONAL[alpha]
    return """---- MODULE %s ----
(* GENERATED by vh/mdblocks_gen.py -- positional line alphabet %s: the lines allowed at line 1, 2, ...
%s
   Every document whose k-th line is taken from the k-th set (all prefixes included). *)
EXTENDS MdBlocks, Json
CONSTANTS MaxLines, MaxDepth
VARIABLES doc, st
vars == <<doc, st>>
Pos == <<%s>>
Init == doc = <<>> /\\ st = <<DocNode>>
Open(s) == [k \\in 1..Len(s) |-> s[k].t]
Feed(l) == /\\ Len(doc) < MaxLines /\\ Len(doc) < Len(Pos)
           /\\ doc' = Append(doc, l)
           /\\ st' = Step(st, l, Len(doc) + 1)
           /\\ PrintT(ToJson([doc |-> doc', tree |-> Finish(st'), open |-> Open(st')]))
Next == Len(doc) < Len(Pos) /\\ \\E l \\in Pos[Len(doc) + 1] : Feed(l)
CanOpenIn(p, c) == CASE p \\in {"doc", "bq", "item"} -> c # "item" [] p = "list" -> c = "item" [] OTHER -> FALSE
StackLegal == st[1].t = "doc" /\\ \\A k \\in 2..Len(st) : CanOpenIn(st[k - 1].t, st[k].t)
====
""".replace("\\\\", "\\") % (name, alpha, "\n".join("     %d: %r" % (i + 1, p_) for i, p_ in enumerate(pos)),
             ", ".join("{" + ", ".join(seq(x) for x in p_) + "}" for p_ in pos))


def seq(s):
    return "<<" + ", ".join(tlc.tla_str(c) for c in s) + ">>"


def module(name, alpha):
    ind, mk, body = ALPHABETS[alpha]
    return """---- MODULE %s ----
(* GENERATED by vh/mdblocks_gen.py -- line alphabet %s:
     indents %r
     markers %r
     bodies  %r
   Every document of at most MaxLines lines over  indent x marker x body.  With VIEW View (cfg) TLC identifies
   states by the shape of the open stack and the number of lines, so that it explores every (abstract parser state,
   line shape) transition once, with one witness document per abstract state. *)
EXTENDS MdBlocks, Json
CONSTANTS MaxLines, MaxDepth
VARIABLES doc, st
vars == <<doc, st>>
Ind == {%s}
Mk == {%s}
Body == {%s}
Lines == {i \\o m \\o b : i \\in Ind, m \\in Mk, b \\in Body}
Init == doc = <<>> /\\ st = <<DocNode>>
Open(s) == [k \\in 1..Len(s) |-> s[k].t]
Feed(l) == /\\ Len(doc) < MaxLines
           /\\ Len(st) <= MaxDepth
           /\\ doc' = Append(doc, l)
           /\\ st' = Step(st, l, Len(doc) + 1)
           /\\ PrintT(ToJson([doc |-> doc', tree |-> Finish(st'), open |-> Open(st')]))
Next == \\E l \\in Lines : Feed(l)
Shape(nd) == <<nd.t, nd.d, nd.kids # <<>>, nd.txt # <<>>, nd.llb>>
View == <<[i \\in 1..Len(st) |-> Shape(st[i])], Len(doc)>>
CanOpenIn(p, c) == CASE p \\in {"doc", "bq", "item"} -> c # "item" [] p = "list" -> c = "item" [] OTHER -> FALSE
StackLegal == st[1].t = "doc" /\\ \\A k \\in 2..Len(st) : CanOpenIn(st[k - 1].t, st[k].t)
====
""" % (name, alpha, ind, mk, body, ", ".join(seq(x) for x in ind), ", ".join(seq(x) for x in mk), ", ".join(seq(x) for x in body))


CFG = """CONSTANTS
  MaxLines = %d
  MaxDepth = %d
INIT Init
NEXT Next
%sINVARIANT StackLegal
CHECK_DEADLOCK FALSE
"""


def write():
    d = os.path.join(tlc.SPEC, "mc")
    for alpha in ALPHABETS:
        with open(os.path.join(d, "MC_MdBlocks%s.tla" % alpha), "w", encoding="utf-8") as f:
            f.write(module("MC_MdBlocks%s" % alpha, alpha))
    for alpha in POSITIONAL:
        with open(os.path.join(d, "MC_MdBlocks%s.tla" % alpha), "w", encoding="utf-8") as f:
            f.write(module_pos("MC_MdBlocks%s" % alpha, alpha))
        with open(os.path.join(d, "MC_MdBlocks%s_all.cfg" % alpha), "w", encoding="utf-8") as f:
            f.write(CFG % (len(POSITIONAL[alpha]), 10, ""))
    for name, (ml, md, view) in {"MC_MdBlocksQ_2": (2, 8, False), "MC_MdBlocksF_2": (2, 8, False), "MC_MdBlocksF_3v": (3, 6, True),
                                 "MC_MdBlocksQ_3v": (3, 6, True), "MC_MdBlocksN_2": (2, 10, False), "MC_MdBlocksN_3v": (3, 8, True),
                                 "MC_MdBlocksQ_4v": (4, 6, True), "MC_MdBlocksD_2": (2, 10, False), "MC_MdBlocksD_3v": (3, 10, True),
                                 "MC_MdBlocksO_3": (3, 8, False), "MC_MdBlocksT_3": (3, 10, False), "MC_MdBlocksT_2": (2, 10, False),
                                 "MC_MdBlocksO_2": (2, 8, False), "MC_MdBlocksR_3": (3, 8, False), "MC_MdBlocksH_2": (2, 8, False), "MC_MdBlocksH_3v": (3, 8, True),
                                 "MC_MdBlocksS_2": (2, 8, False), "MC_MdBlocksS_3v": (3, 8, True), "MC_MdBlocksG_2": (2, 8, False), "MC_MdBlocksG_3": (3, 8, False), "MC_MdBlocksL_2": (2, 8, False), "MC_MdBlocksL_3": (3, 8, False), "MC_MdBlocksM_3": (3, 8, False), "MC_MdBlocksM_4": (4, 8, False)}.items():
        with open(os.path.join(d, name + ".cfg"), "w", encoding="utf-8") as f:
            f.write(CFG % (ml, md, "VIEW View\n" if view else ""))


if __name__ == "__main__":
    write()
    print("written")
