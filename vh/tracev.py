"""Batched trace validation: write traces to a JSON file, run a trace specification, collect one verdict per trace."""
import json
import os
import shutil

from . import tlc
from .ctx import Machinery


BATCH = 20000          # traces per TLC start: the JSON reader of TLC does not survive files of hundreds of megabytes


def validate(module, cfg, traces, tag="t", workers=16, timeout=1800):
    if not traces:
        raise Machinery("%s: no trace to validate" % module)
    if len(traces) > BATCH:
        total, out = None, []
        for b0 in range(0, len(traces), BATCH):
            r, v = validate(module, cfg, traces[b0:b0 + BATCH], "%s_%d" % (tag, b0), workers, max(timeout, 3600))
            for rec in v:
                if "tid" in rec:
                    rec["tid"] = int(rec["tid"]) + b0
            out += v
            if total is None:
                total = r
            else:
                total.generated += r.generated
                total.distinct += r.distinct
                total.depth = max(total.depth, r.depth)
                total.wall += r.wall
        return total, out
    d = tlc.scratch("trace-")
    path = os.path.join(d, "traces_%s.json" % tag)
    with open(path, "w", encoding="utf-8") as f:
        json.dump(traces, f)
    try:
        r = tlc.run(module, cfg, env={"TRACE_FILE": path}, workers=workers, timeout=timeout)
    finally:
        shutil.rmtree(d, ignore_errors=True)
    if not r.ok:
        raise Machinery("%s: TLC reports %s" % (module, r.violated))
    verdicts = {}
    for rec in r.printed:
        if isinstance(rec, dict) and rec.get("v") in ("ACCEPT", "REJECT", "INVFAIL"):
            verdicts.setdefault(int(rec["tid"]), []).append(rec)
    out = []
    for i in range(1, len(traces) + 1):
        v = verdicts.get(i)
        if not v or len(v) != 1:
            raise Machinery("%s: trace %d has %s verdicts" % (module, i, 0 if not v else len(v)))
        out.append(v[0])
    return r, out
