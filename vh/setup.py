"""setup_cmd: offline self-check of the framework (no build artefacts are needed: TLC and Python only)."""
import glob
import os
import sys
from concurrent.futures import ThreadPoolExecutor

from . import tlc


def main():
    mods = []
    for p in sorted(glob.glob(os.path.join(tlc.SPEC, "**", "*.tla"), recursive=True)):
        mods.append(os.path.relpath(p, tlc.SPEC)[:-4])
    bad = []

    def one(m):
        try:
            tlc.sany(m)
            return None
        except tlc.TlcError as ex:
            return "%s: %s" % (m, ex)
    with ThreadPoolExecutor(8) as ex:
        for r in ex.map(one, mods):
            if r:
                bad.append(r)
    from . import impl  # noqa: F401
    import pymarkdown
    from pymarkdown.general import verif_probe
    if not verif_probe.ENABLED:
        bad.append("probe hooks are not enabled")
    print("setup: %d TLA+ modules parsed, pymarkdown from %s" % (len(mods), os.path.dirname(pymarkdown.__file__)))
    for b in bad:
        print("SETUP-FAILURE:", b)
    sys.exit(1 if bad else 0)


if __name__ == "__main__":
    main()
