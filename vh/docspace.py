"""Document spaces for the parser-side checks: documents enumerated by TLC from spec/MdBlocks.tla (with the model's
block tree and open stack per document), plus fixed pools of generated and repository documents."""
import os

from . import corpus, docgen, impl, tlc
from .ctx import Machinery

QUICK = [("mc/MC_MdBlocksQ", "MC_MdBlocksQ_2.cfg"), ("mc/MC_MdBlocksN", "MC_MdBlocksN_2.cfg"), ("mc/MC_MdBlocksD", "MC_MdBlocksD_2.cfg"),
         ("mc/MC_MdBlocksO", "MC_MdBlocksO_3.cfg"), ("mc/MC_MdBlocksT", "MC_MdBlocksT_3.cfg"), ("mc/MC_MdBlocksR", "MC_MdBlocksR_3.cfg"),
         ("mc/MC_MdBlocksH", "MC_MdBlocksH_2.cfg"), ("mc/MC_MdBlocksL", "MC_MdBlocksL_2.cfg"), ("mc/MC_MdBlocksM", "MC_MdBlocksM_3.cfg"),
         ("mc/MC_MdBlocksK", "MC_MdBlocksK_all.cfg"), ("mc/MC_MdBlocksJ", "MC_MdBlocksJ_all.cfg"), ("mc/MC_MdBlocksG", "MC_MdBlocksG_2.cfg"), ("mc/MC_MdBlocksB", "MC_MdBlocksB_all.cfg"), ("mc/MC_MdBlocksP", "MC_MdBlocksP_all.cfg"), ("mc/MC_MdBlocksW", "MC_MdBlocksW_all.cfg"), ("mc/MC_MdBlocksX", "MC_MdBlocksX_all.cfg"), ("mc/MC_MdBlocksY", "MC_MdBlocksY_all.cfg"),
         ("mc/MC_MdBlocksS", "MC_MdBlocksS_2.cfg"), ("mc/MC_MdBlocksZ", "MC_MdBlocksZ_all.cfg")]
THOROUGH = [("mc/MC_MdBlocksF", "MC_MdBlocksF_2.cfg"), ("mc/MC_MdBlocksQ", "MC_MdBlocksQ_3v.cfg"), ("mc/MC_MdBlocksN", "MC_MdBlocksN_3v.cfg"),
            ("mc/MC_MdBlocksQ", "MC_MdBlocksQ_2.cfg"), ("mc/MC_MdBlocksN", "MC_MdBlocksN_2.cfg"), ("mc/MC_MdBlocksD", "MC_MdBlocksD_2.cfg"),
            ("mc/MC_MdBlocksD", "MC_MdBlocksD_3v.cfg"), ("mc/MC_MdBlocksO", "MC_MdBlocksO_3.cfg"), ("mc/MC_MdBlocksT", "MC_MdBlocksT_3.cfg"),
            ("mc/MC_MdBlocksR", "MC_MdBlocksR_3.cfg"), ("mc/MC_MdBlocksH", "MC_MdBlocksH_2.cfg"), ("mc/MC_MdBlocksH", "MC_MdBlocksH_3v.cfg"),
            ("mc/MC_MdBlocksL", "MC_MdBlocksL_2.cfg"), ("mc/MC_MdBlocksM", "MC_MdBlocksM_3.cfg"), ("mc/MC_MdBlocksL", "MC_MdBlocksL_3.cfg"),
            ("mc/MC_MdBlocksM", "MC_MdBlocksM_4.cfg"), ("mc/MC_MdBlocksK", "MC_MdBlocksK_all.cfg"), ("mc/MC_MdBlocksJ", "MC_MdBlocksJ_all.cfg"),
            ("mc/MC_MdBlocksG", "MC_MdBlocksG_2.cfg"), ("mc/MC_MdBlocksG", "MC_MdBlocksG_3.cfg"), ("mc/MC_MdBlocksB", "MC_MdBlocksB_all.cfg"),
            ("mc/MC_MdBlocksP", "MC_MdBlocksP_all.cfg"), ("mc/MC_MdBlocksW", "MC_MdBlocksW_all.cfg"),
            ("mc/MC_MdBlocksX", "MC_MdBlocksX_all.cfg"), ("mc/MC_MdBlocksY", "MC_MdBlocksY_all.cfg"),
            ("mc/MC_MdBlocksS", "MC_MdBlocksS_2.cfg"), ("mc/MC_MdBlocksS", "MC_MdBlocksS_3v.cfg"), ("mc/MC_MdBlocksZ", "MC_MdBlocksZ_all.cfg")]


def model_docs(ctx, tier):
    """[(text, model record)] -- every document TLC printed, deduplicated by text"""
    out, seen = [], set()
    only = [x for x in os.environ.get("VH_ONLY_MC", "").split(",") if x]        # development / table increments: only these alphabets
    for mod, cfg in (QUICK if tier == "quick" else THOROUGH):
        if only and not any(mod.endswith("MdBlocks" + x) for x in only):
            continue
        # with VIEW, which witness document represents an abstract state depends on the exploration order: one worker (and a fixed
        # fingerprint function) makes the enumerated document set the same on every run
        view = cfg.endswith("v.cfg")
        r = tlc.run(mod, cfg, timeout=3000, keep_raw=False, workers=1 if view else 16, extra=("-fp", "0") if view else ())
        ctx.ev.add_tlc("%s (%s)" % (mod, cfg), r)
        if not r.ok:
            raise Machinery("%s/%s: TLC reports %s" % (mod, cfg, r.violated))
        for rec in r.printed:
            if not isinstance(rec, dict):
                continue
            text = "\n".join("".join(l) for l in rec["doc"]) + "\n"
            if text in seen:
                continue
            seen.add(text)
            out.append((text, rec))
    if not out:
        raise Machinery("MdBlocks model printed no document")
    return out


def inline_docs(tier):
    """every string over small inline alphabets as a one-paragraph document (and inside a heading / list item / quote):
    emphasis {a, space, *, _}, links {a, [, ], (, ), !}, code and escapes {a, `, \\, space}, raw HTML tags {<, a, space, >, /, =, "},
    comments / declarations {<, a, !, -, >}"""
    import itertools
    out = []
    for alpha, nq, nt in (("a *_", 6, 7), ("a[]()!", 4, 6), ("a`\\ ", 4, 6), ("a*_[]`", 4, 5), ("<a >/=\"", 5, 6), ("<a!->", 5, 7)):
        for n in range(1, (nq if tier == "quick" else nt) + 1):
            for tup in itertools.product(alpha, repeat=n):
                s = "".join(tup)
                # raw HTML / autolink alphabets: leading and trailing blanks matter (tag scanning runs to the end of the line)
                if s.strip() and ("<" in alpha or (not s.startswith(" ") and not s.endswith(" "))):
                    out.append(s)
    out = sorted(set(out))
    docs = []
    for k, s in enumerate(out):
        docs.append(("", s + "\n"))
        if tier == "thorough" or k % 9 == 0:
            docs.append(("", "# " + s + "\n"))
            docs.append(("", "- " + s + "\n> " + s + "\n"))
            docs.append(("", "x " + s + "\ny " + s + " z\n"))
    return docs


LRD_LINES = ["[foo]:", "/url", "\"title", "'t'", "[foo]: /u", "abc", "", "> [foo]:", "- [a]:", "[b]: /x 'y", "  [c]:", "[d]: <"]
LRD_BQ_LINES = ["> > a", ">", "> [foo]:", "> abc", "> /url", "> \"t", "", "> - b", "[foo]"]


def lrd_docs(tier):
    """every document of a few lines over two link-reference-definition alphabets (top level; inside block quotes): the
    requeue / rewind paths of the parser"""
    import itertools
    docs = []
    for lines, nq, nt in ((LRD_LINES, 3, 4), (LRD_BQ_LINES, 4, 5)):
        for n in range(1, (nq if tier == "quick" else nt) + 1):
            for combo in itertools.product(lines, repeat=n):
                docs.append(("", "\n".join(combo) + "\n"))
                if n <= 2:
                    docs.append(("", "\n".join(combo)))
    return docs


def position_docs(tier):
    """families for position bookkeeping across lines: block quote paragraphs with hard breaks and changing / missing prefixes,
    multi-line links with destinations that are longer raw than normalised, followed by further inline elements"""
    import itertools
    docs = []
    prefixes = ["> ", ">", "> > ", ""]
    firsts = ["a  ", "a\\", "a"]
    others = ["*b* c", "x `c` y", "[l](/u) z", "w <b> *e*"]
    for p in itertools.product(prefixes, repeat=3):
        if p[0] == "":
            continue
        for f in firsts:
            for o2 in others:
                for o3 in (others if tier == "thorough" else others[:2]):
                    docs.append(("", "%s%s\n%s%s\n%s%s\n" % (p[0], f, p[1], o2 + ("  " if o2 == others[0] else ""), p[2], o3)))
    dests = ["/u", "/a\\*b", "/a%20b", "/a b".replace(" ", "%20") + "&lt;", "</a b>", "/\u00fc", "/a&amp;b", "/a\\(b"]
    tails = ["*e*", "`c`", "<b>", "x [m](/n)", "![i](/j)"]
    for ctxp in ("", "> ", "- "):
        ind = "  " if ctxp == "- " else ctxp
        for dst in dests:
            for tl in tails:
                docs.append(("", "%s[t](\n%s%s) %s\n" % (ctxp, ind, dst, tl)))
                docs.append(("", "%s[t](%s\n%s\"ti\") %s and %s\n" % (ctxp, dst, ind, tl, tl)))
                docs.append(("", "%sa [t](\n%s%s\n%s) %s\n" % (ctxp, ind, dst, ind, tl)))
    # inline raw HTML whose text contains `>` before its real end (attribute values, comments, processing instructions, CDATA),
    # followed by further inline elements on the same and on the next line
    tags = ['<b>', '<a href="x>y">', "<i title='a > b'>", '<kbd title="Ctrl > K">', '<!-- a -> b -->', '<?pi a > b?>', '<![CDATA[ a > b ]]>',
            '<a\n href="u>v">', '</b >', '<br/>']
    for ctxp in ("", "> ", "- "):
        ind = "  " if ctxp == "- " else ctxp
        for tg in tags:
            tgc = tg.replace("\n", "\n" + ind)
            for tl in tails:
                docs.append(("", "%sPress %s then %s now\n" % (ctxp, tgc, tl)))
                docs.append(("", "%sx %s y\n%s%s and %s z\n" % (ctxp, tgc, ind, tl, tgc)))
    # link text that holds a finished emphasis pair or bracketed text and then an UNMATCHED opener whose closer comes after the link
    for ctxp in ("", "> ", "- "):
        for d_ in ("*", "_"):
            for lt in ("[**Important** and %smore](/url) text%s here", "See [note [1] on %susage](/docs/usage.md) for details%s first.",
                       "read [the **big** %sguide][g] today%s", "[`code` and %sopen](/u) close%s", "![**alt** %simg](/i.png) after%s"):
                docs.append(("", "%s%s\n\n[g]: /guide\n" % (ctxp, lt % (d_, d_))))
    # a link / image whose label wraps a line, followed in the same paragraph by another element that spans two lines
    for ctxp in ("", "> ", "- "):
        ind = "  " if ctxp == "- " else ctxp
        for lab in ("[a\n%sb](/u)", "![a\n%sb](/u)", "[a\n%sb][r]"):
            for fol in ("<d\n%se>", "[d](/v\n%s\"t\")", "`c\n%sd`", "[d](\n%s/v)", "*e\n%sf*", "[x\n%sy](/w)"):
                docs.append(("", "%s%s c %s f\n\n[r]: /r\n" % (ctxp, lab % ind, fol % ind)))
                docs.append(("", "%sSee %s and the %s for details.\n" % (ctxp, lab % ind, fol % ind)))
    # paragraphs with TAB separators, an inline element, and text after it whose first word also occurs earlier in the line
    import itertools as _it
    for ctxp in ("", "> ", "- "):
        ind = "  " if ctxp == "- " else ctxp
        for seps in _it.product("\t ", repeat=3):
            if "\t" not in seps:
                continue
            for el in ("*no*", "`no`", "[no](/u)", "<b>no</b>"):
                docs.append(("", "%syes%syes%s%s%syes done\n" % (ctxp, seps[0], seps[1], el, seps[2])))
                docs.append(("", "%sFirst line.\n%sSecond%sline with %s in line%sit.\n" % (ctxp, ind, seps[0], el, seps[1])))
    # TAB + a code span that wraps a line + more content; block quotes nested in list items / indented quotes whose paragraph wraps
    # and has inline elements on later lines; documents of 10+ lines with two pragma lines (line numbers of different widths)
    for t in ("a\t`b\nc` d\n", "a `b\nc`\td\n", "a\t`b\nc`\nd\n", "some\ttext `code span\nwrapped` and more text\n", "- a\t`b\n  c` d\n", "> a\t`b\n> c` d\n",
              "x\t*e\nf* g `h\ni` j\n"):
        docs.append(("", t))
    for lead in ("1. Install the package.\n\n   ", "- item\n\n  ", " ", "  ", "   ", "> - q\n>   "):
        ind = lead.split("\n")[-1]
        q = ind + "> "
        docs.append(("", "%s> **Note:** this needs Python 3.8 or\n%slater, see [the docs](https://example.com/docs)\n%sand use ` pip ` or <b>pipenv</b>.\n" % (lead, q, q)))
        docs.append(("", "%s> first *line*\n%s`code` and ![i](/j) then\n%s[l](/u \"t\") end\n" % (lead, q, q)))
    body = "".join("line %d of the text\n\n" % k if k % 2 else "#  Heading %d\n\n" % k for k in range(1, 8))
    blines = body.split("\n")
    for a_, b_ in ((3, 12), (9, 10), (2, 11), (10, 13)):
        ls = list(blines)
        ls.insert(b_ - 1, "<!-- pyml disable-next-line no-multiple-space-atx-->")
        ls.insert(a_ - 1, "<!--- pyml disable-num-lines 2 md019-->")
        docs.append(("", "\n".join(ls)))
    return docs


def other_docs(tier, seed_):
    """fixed pools (generated, systematic) in a VERIF_SEED-chosen subset for quick, complete for thorough; repository documents"""
    if os.environ.get("VH_ONLY_MC"):
        return []
    n_gen, n_sys = (400, 400) if tier == "quick" else (docgen.POOL, docgen.SYS_POOL)
    docs = inline_docs(tier) + lrd_docs(tier) + position_docs(tier) + docgen.documents(n_gen, seed_) + docgen.systematic(seed_, n_sys)
    docs += docgen.fix_families()             # ordinary-looking nested documents (lists in lists in quotes, fences, headings inside items)
    paths = corpus.rule_docs() if tier == "thorough" else corpus.sample(corpus.rule_docs(), 150, seed_)
    for p in paths + (corpus.project_docs() if tier == "thorough" else corpus.sample(corpus.project_docs(), 15, seed_)):
        try:
            docs.append((os.path.relpath(p, impl.REPO), corpus.read(p).decode("utf-8").replace("\r\n", "\n")))
        except UnicodeDecodeError:
            pass
    return docs
