"""Document spaces for the parser-side checks: documents enumerated by TLC from spec/MdBlocks.tla (with the model's
block tree and open stack per document), plus fixed pools of generated and repository documents."""
import os

from . import corpus, docgen, impl, tlc
from .ctx import Machinery

QUICK = [("mc/MC_MdBlocksQ", "MC_MdBlocksQ_2.cfg"), ("mc/MC_MdBlocksN", "MC_MdBlocksN_2.cfg")]
THOROUGH = [("mc/MC_MdBlocksF", "MC_MdBlocksF_2.cfg"), ("mc/MC_MdBlocksQ", "MC_MdBlocksQ_3v.cfg"), ("mc/MC_MdBlocksN", "MC_MdBlocksN_3v.cfg"),
            ("mc/MC_MdBlocksQ", "MC_MdBlocksQ_2.cfg"), ("mc/MC_MdBlocksN", "MC_MdBlocksN_2.cfg")]


def model_docs(ctx, tier):
    """[(text, model record)] -- every document TLC printed, deduplicated by text"""
    out, seen = [], set()
    for mod, cfg in (QUICK if tier == "quick" else THOROUGH):
        r = tlc.run(mod, cfg, timeout=3000, keep_raw=False)
        ctx.ev.add_tlc("%s (%s)" % (mod, cfg), r)
        if not r.ok:
            raise Machinery("%s/%s: TLC reports %s" % (mod, cfg, r.violated))
        for rec in r.printed:
            if not isinstance(rec, dict):
                continue
            text = "\n".join("".join(l) for l in rec["doc"]) + "\n"
            if text in seen:
                continue
            seen.add(text)
            out.append((text, rec))
    if not out:
        raise Machinery("MdBlocks model printed no document")
    return out


def other_docs(tier, seed_):
    """fixed pools (generated, systematic) in a VERIF_SEED-chosen subset for quick, complete for thorough; repository documents"""
    n_gen, n_sys = (400, 400) if tier == "quick" else (docgen.POOL, docgen.SYS_POOL)
    docs = docgen.documents(n_gen, seed_) + docgen.systematic(seed_, n_sys)
    paths = corpus.rule_docs() if tier == "thorough" else corpus.sample(corpus.rule_docs(), 150, seed_)
    for p in paths + (corpus.project_docs() if tier == "thorough" else corpus.sample(corpus.project_docs(), 15, seed_)):
        try:
            docs.append((os.path.relpath(p, impl.REPO), corpus.read(p).decode("utf-8").replace("\r\n", "\n")))
        except UnicodeDecodeError:
            pass
    return docs
