"""Drivers for the implementation under test (imports pymarkdown from /repo's working tree)."""
import contextlib
import io
import multiprocessing as mp
import os
import signal
import sys

REPO = os.environ.get("VERIF_REPO", "/repo")
os.environ["PYMARKDOWN_VERIF"] = "1"          # hooks on (guard), before pymarkdown is imported
os.environ.pop("PYMARKDOWN_VERIF_TRACE", None)
if REPO not in sys.path:
    sys.path.insert(0, REPO)

import logging as _logging
_logging.lastResort = _logging.NullHandler()   # API calls inherit logging: keep library warnings out of the checks' stderr

VERIF = os.path.dirname(os.path.dirname(os.path.abspath(__file__)))
PLUGINS = os.path.join(VERIF, "plugins")


class Result:
    __slots__ = ("code", "out", "err", "events", "exc")

    def __init__(self, code, out, err, events, exc=None):
        self.code, self.out, self.err, self.events, self.exc = code, out, err, events, exc

    def as_dict(self):
        return {"code": self.code, "out": self.out, "err": self.err, "exc": self.exc}


class Watchdog(Exception):
    pass


_HANG = {"where": ""}


def _alarm(_sig, frm):
    # remember where the code was when the watchdog fired (two innermost pymarkdown functions)
    names = []
    f = frm
    while f is not None and len(names) < 2:
        if "/pymarkdown/" in f.f_code.co_filename:
            names.append("%s:%s" % (os.path.basename(f.f_code.co_filename), f.f_code.co_name))
        f = f.f_back
    _HANG["where"] = "<".join(names)
    raise Watchdog()


def run_cli(args, cwd=None, stdin=None, timeout=20, want_events=True):
    """Run `pymarkdown <args>` in-process. Returns Result (exit code, stdout, stderr, probe events)."""
    from pymarkdown.general import verif_probe
    from pymarkdown.main import PyMarkdownLint
    assert verif_probe.ENABLED, "hooks must be on"
    events = []
    verif_probe.set_sink(events.append if want_events else None)
    out, err = io.StringIO(), io.StringIO()
    old_cwd = os.getcwd()
    old_stdin = sys.stdin
    code, exc = None, None
    old_handler = signal.signal(signal.SIGALRM, _alarm)
    signal.alarm(timeout)
    try:
        if cwd:
            os.chdir(cwd)
        if stdin is not None:
            sys.stdin = io.StringIO(stdin)
        with contextlib.redirect_stdout(out), contextlib.redirect_stderr(err):
            try:
                PyMarkdownLint().main(list(args))
                code = 0
            except SystemExit as ex:
                code = ex.code if isinstance(ex.code, int) else (0 if ex.code is None else 1)
            except Watchdog:
                exc = "Watchdog"
            except BaseException as ex:  # pylint: disable=broad-except
                exc = "%s: %s" % (type(ex).__name__, ex)
    finally:
        signal.alarm(0)
        signal.signal(signal.SIGALRM, old_handler)
        sys.stdin = old_stdin
        os.chdir(old_cwd)
        verif_probe.set_sink(None)
    return Result(code, out.getvalue(), err.getvalue(), events, exc)


_TK = None


def tokenizer(extensions=None):
    """A TokenizedMarkdown configured like the CLI does (optionally with extension settings)."""
    from application_properties import ApplicationProperties
    from pymarkdown.extension_manager.extension_manager import ExtensionManager
    from pymarkdown.general.main_presentation import MainPresentation
    from pymarkdown.general.tokenized_markdown import TokenizedMarkdown
    import argparse
    props = ApplicationProperties()
    if extensions:
        props.load_from_dict({"extensions": extensions})
    em = ExtensionManager(MainPresentation())
    em.initialize(argparse.Namespace(), props)
    em.apply_configuration()
    tk = TokenizedMarkdown()
    tk.apply_configuration(props, em)
    return tk


def default_tokenizer():
    global _TK
    if _TK is None:
        _TK = tokenizer()
    return _TK


def parse(text, tk=None, timeout=5, want_events=False):
    """tokens, or ('EXC', exception type, message, innermost pymarkdown function).
    A parse that uses more than `timeout` seconds of CPU time (ITIMER_VIRTUAL: insensitive to machine load) -> 'Watchdog'."""
    from pymarkdown.general import verif_probe
    tk = tk or default_tokenizer()
    events = []
    verif_probe.set_sink(events.append if want_events else None)
    old_handler = signal.signal(signal.SIGVTALRM, _alarm)
    signal.setitimer(signal.ITIMER_VIRTUAL, timeout)
    caught = []
    r = None
    try:
        try:
            toks = tk.transform(text, show_debug=False)
            signal.setitimer(signal.ITIMER_VIRTUAL, 0)
            return (toks, events) if want_events else toks
        except Watchdog:
            r = ("EXC", "Watchdog", "", _HANG["where"])
        except Exception as ex:  # pylint: disable=broad-except
            caught.append(ex)              # examined below, after the timer is off
    except Watchdog:
        # the timer fired while the exception above was being caught: the parse had already ended with that exception
        if not caught:
            r = ("EXC", "Watchdog", "", _HANG["where"])
    finally:
        signal.setitimer(signal.ITIMER_VIRTUAL, 0)
        signal.signal(signal.SIGVTALRM, old_handler)
        verif_probe.set_sink(None)
    if r is None:
        c = caught[0]
        while c.__cause__ is not None:
            c = c.__cause__
        import traceback
        where = ""
        tb = [f for f in traceback.extract_tb(c.__traceback__) if "/pymarkdown/" in f.filename]
        if tb:
            where = "%s:%s" % (os.path.basename(tb[-1].filename), tb[-1].name)
        r = ("EXC", type(c).__name__, str(c)[:120], where)
    return (r, events) if want_events else r


def to_html(tokens):
    from pymarkdown.transform_gfm.transform_to_gfm import TransformToGfm
    return TransformToGfm().transform(tokens)


def to_markdown(tokens):
    from pymarkdown.transform_markdown.transform_to_markdown import TransformToMarkdown
    return TransformToMarkdown().transform(tokens)


# ---- process pool ----------------------------------------------------------------------

def _init(extra):
    signal.signal(signal.SIGINT, signal.SIG_IGN)
    import logging
    logging.disable(logging.CRITICAL)
    logging.disable(logging.NOTSET)
    if extra:
        extra()


def pmap(fn, items, procs=16, chunksize=None, init=None):
    items = list(items)
    if not items:
        return []
    procs = min(procs, max(1, len(items)))
    if procs == 1:
        if init:
            init()
        return [fn(x) for x in items]
    cs = chunksize or max(1, min(200, len(items) // (procs * 4) or 1))
    ctx = mp.get_context("fork")
    with ctx.Pool(procs, _init, (init,)) as pool:
        return pool.map(fn, items, chunksize=cs)
