"""Helpers for the Obs family (single verdict function): scanning through the CLI, failure parsing, trace building."""
import hashlib
import json
import re

from . import impl, runs, tracev

_LINE = re.compile(r"^(?P<file>.*?):(?P<line>\d+):(?P<col>\d+): (?P<rule>[A-Z]+\d+): (?P<msg>.*)$")
_RULES = None


def rules():
    """[(id, [names], enabled by default, fix-capable)] of the registered rules, from `plugins list`."""
    global _RULES
    if _RULES is None:
        r = impl.run_cli(["plugins", "list"], want_events=False)
        out = []
        for line in r.out.splitlines():
            p = line.split()
            if len(p) >= 6 and p[-1] in ("Yes", "No") and p[-3] in ("True", "False") and p[-4] in ("True", "False"):
                names = " ".join(p[1:-4]).replace(" ", "").split(",")
                out.append((p[0], names, p[-4] == "True", p[-1] == "Yes"))
        _RULES = out
    return _RULES


def parse_failures(out):
    """stdout of a scan -> list of (file, line, col, rule, message) in printed order; other lines -> ('?', ...)"""
    res = []
    for l in out.splitlines():
        m = _LINE.match(l)
        if m:
            res.append((m.group("file"), int(m.group("line")), int(m.group("col")), m.group("rule"), m.group("msg")))
        elif l.strip():
            res.append(("?", 0, 0, "?", l))
    return res


def h(x):
    return hashlib.sha1(json.dumps(x, sort_keys=True, ensure_ascii=True).encode()).hexdigest()[:12]


def by_rule(failures):
    d = {}
    for _f, line, col, rule, msg in failures:
        d.setdefault(rule, []).append((line, col, msg))
    return {k: sorted(v) for k, v in d.items()}


def validate(traces, tag="obs"):
    return tracev.validate("trace/Trace_Obs", "Trace_Obs.cfg", traces, tag)
