"""The repository's own test suite as a source of traces: run (part of) it with the probes on, cut the recorded events
into runs (run_begin ... exit) and frame each run for Trace_App.  The tests already drive thousands of scan / fix /
stdin / list / plugins / configuration-error command lines; their own assertions look at output text, the trace
specification looks at every step (exit table, error never masked, changed <=> announced <=> code, no temp file left)."""
import glob
import json
import os
import shutil
import subprocess
import sys

from . import appscen, impl, tlc
from .ctx import Machinery

MODE = {"scan": "scan", "fix": "fix", "scan-stdin": "stdin"}


def record(paths, workers=8, timeout=1800):
    """run pytest on `paths` (relative to the repository) with probes on; returns the list of runs (each a list of events)"""
    d = tlc.scratch("suite-")
    try:
        env = dict(os.environ)
        env.update({"PYMARKDOWN_VERIF": "1", "VH_SUITE_TRACE_DIR": d, "PYTHONPATH": impl.PLUGINS + os.pathsep + impl.REPO})
        env.pop("PYMARKDOWN_VERIF_TRACE", None)
        cmd = [sys.executable, "-m", "pytest", "-q", "-p", "no:cacheprovider", "-p", "vh_pytest_trace", "-n", str(workers), "--timeout=900"] + list(paths)
        p = subprocess.run(cmd, cwd=impl.REPO, env=env, capture_output=True, text=True, timeout=timeout)
        tail = (p.stdout or "").strip().splitlines()[-1:] or [""]
        runs = []
        for f in sorted(glob.glob(os.path.join(d, "trace_*.ndjson"))):
            cur = None
            with open(f, encoding="utf-8") as fh:
                for line in fh:
                    try:
                        e = json.loads(line)
                    except ValueError:
                        continue
                    # a run: the `enabled` events of plugin registration, run_begin, the files, exit
                    if e.get("ev") == "enabled" and (cur is None or any(x.get("ev") in ("run_begin", "exit") for x in cur)):
                        if cur:
                            runs.append(cur)
                        cur = []
                    if cur is None:
                        cur = []
                    cur.append(e)
                    if e.get("ev") == "exit":
                        runs.append(cur)
                        cur = None
            if cur:
                runs.append(cur)
        if not runs:
            raise Machinery("the repository's tests recorded no run (pytest said: %s %s)" % (tail[0], (p.stderr or "")[-300:]))
        return runs, tail[0]
    finally:
        shutil.rmtree(d, ignore_errors=True)


def frame(run):
    """one recorded run as a Trace_App trace, or None when it has no exit event (argparse exit, exception outside the application)"""
    rb = next((e for e in run if e.get("ev") == "run_begin"), None)
    ex = next((e for e in run if e.get("ev") == "exit"), None)
    if ex is None or rb is None:
        return None            # ended before the command was known (configuration / plugin load error) or without an exit event
    mode = MODE.get(rb.get("command"), "other")
    if rb.get("list_files"):
        mode = "other"
    scheme = rb.get("scheme_argument") or ex.get("scheme") or "default"
    names = sorted({e["file"] for e in run if e.get("ev") == "file_begin" and e.get("file") and e["file"] != "(stdin)"})
    rank = {n: i + 1 for i, n in enumerate(names)}
    # trace_of starts the run at the first `enabled` event: make sure there is one even for runs that fail before plugins load
    events = [e for e in run if e.get("ev") != "run_begin"]
    if not any(e.get("ev") == "enabled" for e in events):
        events = [{"ev": "enabled"}] + events
    return appscen.trace_of(mode, scheme, bool(rb.get("continue_on_error")), events, ex.get("code"), rank)
