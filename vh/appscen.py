"""Scenarios of spec/mc/MC_AppScen.tla: generate with TLC, concretise, run the real command, compare,
and validate the recorded probe events against spec/trace/Trace_App.tla."""
import json
import os
import shutil

from . import faults, impl, tlc
from .ctx import Machinery

FAULTY = os.path.join(impl.PLUGINS, "vh_faulty.py")

CONTENT = {
    "clean": b"# Title\n\nSome text.\n",
    "trig": b"# Title\n\n" + b"word " * 20 + b"end\n",
    "fixable": b"# Title\n\nSome text.   \n",
    "perr": b"# Title\n\nSome FAULT-TOKEN text.\n",
    "perrl": b"# Title\n\nSome FAULT-LINE text.\n",
    "terr": b"# Title\n\nSome FAULT-PARSER text.\n",
    "undec": b"# Title\n\nSome \xff\xfe text.\n",
}
CONTENT["fixtok"] = b"#  Title\n\nSome text.\n"                        # MD019: token-level fix, file is re-parsed
CONTENT["fix2"] = b"# Title\n\nSome text.   \n\n\n\nMore.\n"        # MD009 (level 0) then MD012 (level 1): two write-backs
FIXED = {"fixable": b"# Title\n\nSome text.  \n", "fixtok": b"# Title\n\nSome text.\n",
         "fix2": b"# Title\n\nSome text.  \n\nMore.\n"}   # MD009: 3 trailing spaces -> 2 (br_spaces)


# complete results of earlier passes (one write-back per fix level)
STAGES = {"fix2": (b"# Title\n\nSome text.  \n\n\n\nMore.\n",)}


def generate(cfg):
    r = tlc.run("mc/MC_AppScen", cfg)
    if not r.ok:
        raise Machinery("MC_AppScen: TLC reports %s" % r.violated)
    scen = [p for p in r.printed if isinstance(p, dict)]
    if not scen:
        raise Machinery("MC_AppScen printed no scenario")
    return r, scen


def argv_of(sc, names):
    """Command line (and stdin) for scenario sc; names: file names for its kinds."""
    a = ["--add-plugin", FAULTY]
    sel = sc["sel"]
    if sel in ("arg_default", "arg_default_cfg_minimal"):
        a += ["--return-code-scheme", "default"]
    if sel in ("arg_minimal", "arg_minimal_cfg_default"):
        a += ["--return-code-scheme", "minimal"]
    if sel == "arg_bad":
        a += ["--return-code-scheme", "bogus"]
    if sel in ("cfg_default", "arg_minimal_cfg_default"):
        a += ["--set", "mode.return_code_scheme=default"]
    if sel in ("cfg_minimal", "arg_default_cfg_minimal"):
        a += ["--set", "mode.return_code_scheme=minimal"]
    if sel == "cfg_bad":
        a += ["--set", "mode.return_code_scheme=bogus"]
    if sc["cfg"] == "badfile":
        a += ["--config", "does-not-exist.json"]
    if sc["cfg"] == "strictbad":
        a += ["--strict-config", "--set", "plugins.md013.line_length=abc"]
    if sc["coe"]:
        a += ["--continue-on-error"]
    cmd = sc["cmd"]
    tail = {
        "scan": ["scan"] + names, "fix": ["fix"] + names, "stdin": ["scan-stdin"],
        "list_some": ["scan", "-l", "some"], "list_none": ["scan", "-l", "empty"],
        "scan_missing": ["scan", "missing.md"], "fix_missing": ["fix", "missing.md"],
        "scan_good_missing": ["scan", "some/x.md", "missing.md"], "fix_good_missing": ["fix", "some/y.md", "missing.md"],
        "scan_good_noglob": ["scan", "some/x.md", "nothing-*.md"],
        "plugins_list": ["plugins", "list"], "plugins_info_hit": ["plugins", "info", "md001"],
        "plugins_info_miss": ["plugins", "info", "md998"], "plugins_none": ["plugins"],
        "ext_list": ["extensions", "list"], "ext_info_hit": ["extensions", "info", "front-matter"],
        "ext_info_miss": ["extensions", "info", "no-such-ext"], "ext_none": ["extensions"],
        "version": ["version"], "none": [], "badarg": ["--no-such-option", "scan", "x.md"],
    }[cmd]
    if cmd in ("scan", "fix") and not names:
        tail = [cmd, "empty"]
    return a + tail


def run_one(rec):
    """Execute one scenario record (as printed by TLC) against the real code. Returns observation dict."""
    from . import runs
    sc = rec["sc"]
    kinds = sc["kinds"]
    files = []
    stdin = None
    if sc["cmd"] == "stdin":
        stdin = CONTENT[kinds[0]]
    else:
        files = [("f%d.md" % (i + 1), CONTENT[kd]) for i, kd in enumerate(kinds)]
    files_all = files + [("some/x.md", CONTENT["clean"]), ("some/y.md", CONTENT["fixable"])]
    obs = runs.execute(files_all, argv_of(sc, [n for n, _ in files]), stdin_bytes=stdin, dirs=("empty",))
    obs["names"] = [n for n, _ in files]
    obs["contents"] = {k: v.decode("latin-1") for k, v in obs["contents"].items() if k not in ("some/x.md", "some/y.md")}
    return obs


def compare(rec, obs, base=None, failing=None, how=""):
    """Spec outcome vs observation -> list of (property, signature, detail).
    base: concrete content kinds per file when they differ from the scenario's abstract kinds (fault
    enumeration: the scenario says 'perr' at the position whose real document is base[i]);
    failing: 1-based index of the file the fault hit; how: fault description for signatures."""
    sc = rec["sc"]
    bad = []
    tag = "%s/%s/%s/coe=%s/%s" % (sc["cmd"], sc["sel"], sc["cfg"], "T" if sc["coe"] else "F", ",".join(sc["kinds"]))
    kinds = sc["kinds"]
    names = obs["names"]

    def kind_of_idx(i):
        return kinds[i - 1]
    if obs["exc"]:
        bad.append(("C18", "exception-escaped:%s" % obs["exc"].split(":")[0], obs["exc"]))
        return bad
    # --- exit code and category (C18; error masking is also C15)
    if obs["code"] != rec["code"]:
        fault = [k for k in kinds if k in ("perr", "perrl", "terr", "undec")]
        prop = "C15" if fault and rec["category"] == "SYSTEM_ERROR" else "C18"
        sig = "exit-code:%s:%s:coe=%s:expected=%s:%s:observed=%s" % (
            sc["cmd"], "+".join(sorted(set(fault))) or "-", "T" if sc["coe"] else "F", rec["category"], rec["code"], obs["code"])
        bad.append((prop, sig, {"scenario": sc, "argv": obs["argv"], "expected": rec["code"], "observed": obs["code"],
                                "stderr": obs["err"][-400:]}))
        if prop == "C15":
            bad.append(("C18", sig, {"scenario": sc, "argv": obs["argv"], "expected": rec["code"], "observed": obs["code"]}))
        if sc["cmd"] == "fix" and not fault and rec["category"] in ("FIXED_AT_LEAST_ONE_FILE", "SUCCESS"):
            # C10 as well: the result code of a fix run must say, in the scheme the run selected, exactly what was announced
            bad.append(("C10", "fixed-code-vs-announced:%s:expected=%s:%s:observed=%s" % (sc["sel"], rec["category"], rec["code"], obs["code"]),
                        {"scenario": sc, "argv": obs["argv"], "expected": rec["code"], "observed": obs["code"]}))
    exits = [e for e in obs["events"] if e["ev"] == "exit"]
    if exits and exits[-1]["category"] != rec["category"] and obs["code"] == rec["code"]:
        bad.append(("C18", "exit-category:%s:expected=%s:observed=%s" % (sc["cmd"], rec["category"], exits[-1]["category"]),
                    {"scenario": sc, "argv": obs["argv"]}))
    # --- announced / changed (C10)
    ann_obs = sorted(l[len("Fixed: "):] for l in obs["out"].splitlines() if l.startswith("Fixed: "))
    ann_exp = sorted("f%d.md" % i for i in rec["announced"])
    if ann_obs != ann_exp:
        bad.append(("C10", "announced:%s:expected=%s:observed=%s" % (sc["cmd"], _kk(ann_exp, kinds), _kk(ann_obs, kinds)),
                    {"scenario": sc, "argv": obs["argv"], "expected": ann_exp, "observed": ann_obs}))
    ch_exp = sorted("f%d.md" % i for i in rec["changed"])
    ch_obs = [n for n in obs["changed"] if failing is None or n != "f%d.md" % failing]
    if ch_obs != ch_exp:
        bad.append(("C10", "changed:%s:expected=%s:observed=%s" % (sc["cmd"], _kk(ch_exp, kinds), _kk(obs["changed"], kinds)),
                    {"scenario": sc, "argv": obs["argv"], "expected": ch_exp, "observed": obs["changed"]}))
    if obs["created"]:
        bad.append(("C10", "created-file:%s" % sc["cmd"], {"scenario": sc, "argv": obs["argv"], "created": obs["created"]}))
    for n, data in obs["contents"].items():
        idx = int(n[1:-3])
        kd = (base or kinds)[idx - 1]
        raw = data.encode("latin-1") if isinstance(data, str) else data
        if failing == idx:
            # the file the fault hit: untouched or completely fixed, never anything else
            if raw != CONTENT[kd] and raw != FIXED.get(kd, CONTENT[kd]):
                what = "failing-file-intermediate-pass-result" if raw in STAGES.get(kd, ()) else "failing-file-half-written"
                bad.append(("C15", "%s:%s:%s:%s" % (what, sc["cmd"], kd, how),
                            {"scenario": sc, "file": n, "content": data, "argv": obs["argv"]}))
            continue
        want = FIXED.get(kd) if n in ch_exp else CONTENT[kd]
        if want is not None and raw != want:
            bad.append(("C10" if base is None else "C15", "content:%s:%s" % (sc["cmd"], kd), {"scenario": sc, "file": n, "content": data}))
    # --- temp files (C15 / C10)
    if obs["left"]:
        fault = [k for k in kinds if k in ("perr", "perrl", "terr", "undec")]
        leak = _leaking_kinds(obs, kinds)
        if leak:
            fault = leak
        props = (["C15"] if fault else []) + (["C10"] if (not fault or sc["cmd"] != "fix") else [])
        for prop in props:
            bad.append((prop, "temp-left:%s:%s:coe=%s%s" % (sc["cmd"], "+".join(sorted(set(fault))) or "-", "T" if sc["coe"] else "F",
                                                            (":" + how) if how else ""),
                        {"scenario": sc, "argv": obs["argv"], "left": obs["left"]}))
    # --- visited files: exactly those the model visits, in order (C13/C15 continue / stop)
    begun = [e["file"] for e in obs["events"] if e["ev"] == "file_begin" and e["file"] != "(stdin)"]
    vis_exp = ["f%d.md" % i for i in sorted(rec["visited"])] if sc["cmd"] in ("scan", "fix") else []
    if sc["cmd"] in ("scan", "fix") and begun != vis_exp:
        bad.append(("C15", "visited:%s:coe=%s:expected=%s:observed=%s" % (sc["cmd"], "T" if sc["coe"] else "F", _kk(vis_exp, kinds), _kk(begun, kinds)),
                    {"scenario": sc, "argv": obs["argv"], "expected": vis_exp, "observed": begun}))
    # --- failures printed iff the model says so (scan)
    has_fail = any((": MD" in l) for l in obs["out"].splitlines())
    if sc["cmd"] in ("scan", "stdin") and (rec["nfail"] > 0) != has_fail:
        bad.append(("C18", "failures-printed:%s:expected=%s" % (sc["cmd"], rec["nfail"] > 0), {"scenario": sc, "argv": obs["argv"], "out": obs["out"][-300:]}))
    # --- the error names the failing file (C15)
    failing = sorted(set(rec["failed"]) | ({rec["midfile"]} if rec["midfile"] else set()))
    for i in failing:
        if sc["cmd"] == "stdin":
            continue
        n = "f%d.md" % i
        if n not in obs["err"]:
            bad.append(("C15", "error-does-not-name-file:%s:%s:coe=%s" % (sc["cmd"], kind_of_idx(i), "T" if sc["coe"] else "F"),
                        {"scenario": sc, "argv": obs["argv"], "stderr": obs["err"][-400:]}))
    if rec["category"] == "SYSTEM_ERROR" and not obs["err"].strip():
        bad.append(("C15", "error-not-reported:%s" % sc["cmd"], {"scenario": sc, "argv": obs["argv"]}))
    return bad


def _leaking_kinds(obs, kinds):
    """kinds of the files during whose processing a temporary file was created and never deleted"""
    live, cur, out = {}, None, []
    for e in obs["events"]:
        if e["ev"] == "file_begin":
            cur = e["file"]
        elif e["ev"] == "tmp_new":
            live[e["tmp"]] = cur
        elif e["ev"] == "tmp_del":
            live.pop(e["tmp"], None)
    for f in live.values():
        try:
            out.append(kinds[int(f[1:-3]) - 1])
        except (ValueError, IndexError, TypeError):
            out.append("stdin" if f == "(stdin)" else "?")
    return sorted(set(out))


def _kk(namelist, kinds):
    out = []
    for n in namelist:
        try:
            out.append(kinds[int(n[1:-3]) - 1])
        except (ValueError, IndexError):
            out.append(n)
    return "+".join(out) or "-"


# ---- trace validation ------------------------------------------------------------------------

KEEP = {"file_begin", "failure", "level_begin", "tmp_new", "tmp_del", "writeback_begin", "writeback_end",
        "pass_end", "level_end", "scan_error", "announce", "file_end", "exit", "parse_end"}


def trace_of(argv_mode, scheme, coe, events, code, file_rank, disk=None):
    """Frame the recorded probe events as a Trace_App trace.
    argv_mode: 'scan'|'fix'|'stdin'|'other' (from the command line), scheme: scheme the command line asks for
    (argument beats configuration), file_rank: name -> position in sorted order."""
    tr = []
    started = False

    def rank(n):
        if n == "(stdin)":
            return 1
        if n not in file_rank:
            # temp file standing in for stdin, or an unknown name: rank past every known one
            return file_rank.setdefault(n, max(file_rank.values(), default=0) + 1)
        return file_rank[n]
    for e in events:
        ev = e["ev"]
        if ev == "enabled" and not started:
            started = True
            tr.append({"ev": "run", "mode": argv_mode, "scheme": scheme, "coe": bool(coe)})
            continue
        if ev not in KEEP:
            continue
        if ev == "parse_end":
            if not e["ok"]:
                tr.append({"ev": "parse_fail"})
            continue
        if ev == "file_begin":
            tr.append({"ev": ev, "f": rank(e["file"])})
        elif ev == "failure":
            tr.append({"ev": ev, "suppressed": bool(e["suppressed"])})
        elif ev == "level_begin":
            tr.append({"ev": ev, "f": rank(e["file"]), "level": e["level"]})
        elif ev in ("tmp_new", "tmp_del"):
            tr.append({"ev": ev, "tmp": e["tmp"]})
        elif ev == "writeback_begin":
            tr.append({"ev": ev, "f": rank(e["file"]), "tmp": e["tmp"]})
        elif ev == "writeback_end":
            tr.append({"ev": ev, "f": rank(e["file"])})
        elif ev == "pass_end":
            tr.append({"ev": ev, "f": rank(e["file"]), "fixed": bool(e["tokens_fixed"] or e["lines_fixed"])})
        elif ev == "level_end":
            tr.append({"ev": ev, "f": rank(e["file"]), "keep": bool(e["keep"]), "next_level": e["next_level"]})
        elif ev == "scan_error":
            tr.append({"ev": ev, "f": rank(e["file"]), "shortcut": bool(e["shortcut"])})
        elif ev == "announce":
            tr.append({"ev": ev, "f": rank(e["file"])})
        elif ev == "file_end":
            tr.append({"ev": ev, "f": rank(e["file"]), "ok": bool(e["ok"]), "fixed": bool(e["fixed"])})
        elif ev == "exit":
            tr.append({"ev": ev, "category": e["category"], "scheme": e["scheme"], "code": e["code"]})
    tr.append({"ev": "proc_exit", "code": code if isinstance(code, int) else -1})
    if disk is not None:
        changed, extra = disk
        tr.append({"ev": "disk", "changed": sorted(rank(n) for n in changed), "extra": int(extra)})
    return tr


def validate_traces(traces, tag="app"):
    """Run Trace_App over all traces. Returns (tlc result, verdicts: list of ('ACCEPT'|'REJECT'|'INVFAIL', pos, info))."""
    d = tlc.scratch("trace-")
    path = os.path.join(d, "traces_%s.json" % tag)
    with open(path, "w", encoding="utf-8") as f:
        json.dump(traces, f)
    try:
        r = tlc.run("trace/Trace_App", "Trace_App.cfg", env={"TRACE_FILE": path}, workers=16)
    finally:
        shutil.rmtree(d, ignore_errors=True)
    verdicts = {}
    for rec in r.printed:
        if isinstance(rec, dict) and rec.get("v") in ("ACCEPT", "REJECT", "INVFAIL"):
            verdicts.setdefault(int(rec["tid"]), []).append(rec)
    if not r.ok:
        raise Machinery("Trace_App: TLC reports %s" % r.violated)
    out = []
    for i in range(1, len(traces) + 1):
        v = verdicts.get(i)
        if not v or len(v) != 1:
            raise Machinery("Trace_App: trace %d has %s verdicts" % (i, 0 if not v else len(v)))
        out.append(v[0])
    return r, out


def _parse_tuple(line):
    body = line.strip()[2:-2]
    parts = []
    depth = 0
    cur = ""
    inq = False
    for ch in body:
        if ch == '"':
            inq = not inq
            continue
        if not inq and ch in "<[{(":
            depth += 1
        if not inq and ch in ">]})":
            depth -= 1
        if ch == "," and depth == 0 and not inq:
            parts.append(cur.strip())
            cur = ""
        else:
            cur += ch
    parts.append(cur.strip())
    return parts


def mode_of_cmd(cmd):
    return {"scan": "scan", "fix": "fix", "stdin": "stdin"}.get(cmd, "other")


def scheme_of_sel(sel):
    if sel in ("arg_minimal", "arg_minimal_cfg_default", "cfg_minimal"):
        return "minimal"
    return "default"
