"""Scenarios of spec/mc/MC_AppScen.tla: generate with TLC, concretise, run the real command, compare,
and validate the recorded probe events against spec/trace/Trace_App.tla."""
import hashlib
import io
import json
import os
import shutil
import sys
import tempfile

from . import faults, impl, tlc
from .ctx import Machinery

FAULTY = os.path.join(impl.PLUGINS, "vh_faulty.py")

CONTENT = {
    "clean": b"# Title\n\nSome text.\n",
    "trig": b"# Title\n\n" + b"word " * 20 + b"end\n",
    "fixable": b"# Title\n\nSome text.   \n",
    "perr": b"# Title\n\nSome FAULT-TOKEN text.\n",
    "perrl": b"# Title\n\nSome FAULT-LINE text.\n",
    "terr": b"# Title\n\nSome FAULT-PARSER text.\n",
    "undec": b"# Title\n\nSome \xff\xfe text.\n",
}
FIXED = {"fixable": b"# Title\n\nSome text.\n"}


def generate(cfg):
    r = tlc.run("mc/MC_AppScen", cfg)
    if not r.ok:
        raise Machinery("MC_AppScen: TLC reports %s" % r.violated)
    scen = [p for p in r.printed if isinstance(p, dict)]
    if not scen:
        raise Machinery("MC_AppScen printed no scenario")
    return r, scen


def argv_of(sc, names):
    """Command line (and stdin) for scenario sc; names: file names for its kinds."""
    a = ["--add-plugin", FAULTY]
    sel = sc["sel"]
    if sel in ("arg_default", "arg_default_cfg_minimal"):
        a += ["--return-code-scheme", "default"]
    if sel in ("arg_minimal", "arg_minimal_cfg_default"):
        a += ["--return-code-scheme", "minimal"]
    if sel == "arg_bad":
        a += ["--return-code-scheme", "bogus"]
    if sel in ("cfg_default", "arg_minimal_cfg_default"):
        a += ["--set", "mode.return_code_scheme=default"]
    if sel in ("cfg_minimal", "arg_default_cfg_minimal"):
        a += ["--set", "mode.return_code_scheme=minimal"]
    if sel == "cfg_bad":
        a += ["--set", "mode.return_code_scheme=bogus"]
    if sc["cfg"] == "badfile":
        a += ["--config", "does-not-exist.json"]
    if sc["cfg"] == "strictbad":
        a += ["--strict-config", "--set", "plugins.md013.line_length=abc"]
    if sc["coe"]:
        a += ["--continue-on-error"]
    cmd = sc["cmd"]
    tail = {
        "scan": ["scan"] + names, "fix": ["fix"] + names, "stdin": ["scan-stdin"],
        "list_some": ["scan", "-l", "some"], "list_none": ["scan", "-l", "empty"],
        "scan_missing": ["scan", "missing.md"], "fix_missing": ["fix", "missing.md"],
        "plugins_list": ["plugins", "list"], "plugins_info_hit": ["plugins", "info", "md001"],
        "plugins_info_miss": ["plugins", "info", "md998"], "plugins_none": ["plugins"],
        "ext_list": ["extensions", "list"], "ext_info_hit": ["extensions", "info", "front-matter"],
        "ext_info_miss": ["extensions", "info", "no-such-ext"], "ext_none": ["extensions"],
        "version": ["version"], "none": [], "badarg": ["--no-such-option", "scan", "x.md"],
    }[cmd]
    if cmd in ("scan", "fix") and not names:
        tail = [cmd, "empty"]
    return a + tail


def snapshot(d):
    out = {}
    for root, _dirs, files in os.walk(d):
        for f in files:
            p = os.path.join(root, f)
            with open(p, "rb") as fh:
                out[os.path.relpath(p, d)] = hashlib.sha256(fh.read()).hexdigest()
    return out


def run_one(rec):
    """Execute one scenario record (as printed by TLC) against the real code. Returns observation dict."""
    sc = rec["sc"]
    faults.install_parser_fault()
    faults.reset_counters()
    work = tempfile.mkdtemp(prefix="vhs-", dir="/dev/shm" if os.path.isdir("/dev/shm") else None)
    tmpd = os.path.join(work, "_tmp")
    os.mkdir(tmpd)
    os.mkdir(os.path.join(work, "empty"))
    os.mkdir(os.path.join(work, "some"))
    with open(os.path.join(work, "some", "x.md"), "wb") as f:
        f.write(CONTENT["clean"])
    names = []
    stdin = None
    kinds = sc["kinds"]
    if sc["cmd"] == "stdin":
        stdin = CONTENT[kinds[0]]
    else:
        for i, kd in enumerate(kinds):
            n = "f%d.md" % (i + 1)
            names.append(n)
            with open(os.path.join(work, n), "wb") as f:
                f.write(CONTENT[kd])
    before = snapshot(work)
    old_tmp = tempfile.tempdir
    tempfile.tempdir = tmpd
    old_env = os.environ.get("TMPDIR")
    os.environ["TMPDIR"] = tmpd
    try:
        a = argv_of(sc, names)
        sin = None
        if stdin is not None:
            sin = io.TextIOWrapper(io.BytesIO(stdin), encoding="utf-8")
        res = _run_cli_stdin(a, work, sin)
    finally:
        tempfile.tempdir = old_tmp
        if old_env is None:
            os.environ.pop("TMPDIR", None)
        else:
            os.environ["TMPDIR"] = old_env
    after = snapshot(work)
    left = sorted(k for k in after if k.startswith("_tmp" + os.sep))
    changed = sorted(k for k in before if after.get(k) != before[k])
    created = sorted(k for k in after if k not in before and not k.startswith("_tmp" + os.sep))
    contents = {}
    for n in names:
        p = os.path.join(work, n)
        if os.path.exists(p):
            with open(p, "rb") as f:
                contents[n] = f.read()
    shutil.rmtree(work, ignore_errors=True)
    obs = {"argv": a, "code": res.code, "exc": res.exc, "out": res.out, "err": res.err, "events": res.events,
           "left": left, "changed": changed, "created": created, "names": names,
           "contents": {k: v.decode("latin-1") for k, v in contents.items()}}
    return obs


def _run_cli_stdin(a, work, sin):
    if sin is None:
        return impl.run_cli(a, cwd=work)
    old = sys.stdin
    sys.stdin = sin
    try:
        # run_cli replaces sys.stdin only when given text; keep ours
        return impl.run_cli(a, cwd=work, stdin=None)
    finally:
        sys.stdin = old


def compare(rec, obs):
    """Spec outcome vs observation -> list of (property, signature, detail)."""
    sc = rec["sc"]
    bad = []
    tag = "%s/%s/%s/coe=%s/%s" % (sc["cmd"], sc["sel"], sc["cfg"], "T" if sc["coe"] else "F", ",".join(sc["kinds"]))
    kinds = sc["kinds"]
    names = obs["names"]

    def kind_of_idx(i):
        return kinds[i - 1]
    if obs["exc"]:
        bad.append(("C18", "exception-escaped:%s" % obs["exc"].split(":")[0], obs["exc"]))
        return bad
    # --- exit code and category (C18; error masking is also C15)
    if obs["code"] != rec["code"]:
        fault = [k for k in kinds if k in ("perr", "perrl", "terr", "undec")]
        prop = "C15" if fault and rec["category"] == "SYSTEM_ERROR" else "C18"
        sig = "exit-code:%s:%s:coe=%s:expected=%s:%s:observed=%s" % (
            sc["cmd"], "+".join(sorted(set(fault))) or "-", "T" if sc["coe"] else "F", rec["category"], rec["code"], obs["code"])
        bad.append((prop, sig, {"scenario": sc, "argv": obs["argv"], "expected": rec["code"], "observed": obs["code"],
                                "stderr": obs["err"][-400:]}))
        if prop == "C15":
            bad.append(("C18", sig, {"scenario": sc, "argv": obs["argv"], "expected": rec["code"], "observed": obs["code"]}))
    exits = [e for e in obs["events"] if e["ev"] == "exit"]
    if exits and exits[-1]["category"] != rec["category"] and obs["code"] == rec["code"]:
        bad.append(("C18", "exit-category:%s:expected=%s:observed=%s" % (sc["cmd"], rec["category"], exits[-1]["category"]),
                    {"scenario": sc, "argv": obs["argv"]}))
    # --- announced / changed (C10)
    ann_obs = sorted(l[len("Fixed: "):] for l in obs["out"].splitlines() if l.startswith("Fixed: "))
    ann_exp = sorted("f%d.md" % i for i in rec["announced"])
    if ann_obs != ann_exp:
        bad.append(("C10", "announced:%s:expected=%s:observed=%s" % (sc["cmd"], _kk(ann_exp, kinds), _kk(ann_obs, kinds)),
                    {"scenario": sc, "argv": obs["argv"], "expected": ann_exp, "observed": ann_obs}))
    ch_exp = sorted("f%d.md" % i for i in rec["changed"])
    if obs["changed"] != ch_exp:
        bad.append(("C10", "changed:%s:expected=%s:observed=%s" % (sc["cmd"], _kk(ch_exp, kinds), _kk(obs["changed"], kinds)),
                    {"scenario": sc, "argv": obs["argv"], "expected": ch_exp, "observed": obs["changed"]}))
    if obs["created"]:
        bad.append(("C10", "created-file:%s" % sc["cmd"], {"scenario": sc, "argv": obs["argv"], "created": obs["created"]}))
    for n, data in obs["contents"].items():
        kd = kinds[int(n[1:-3]) - 1]
        want = FIXED.get(kd) if n in ch_exp else CONTENT[kd]
        if want is not None and data.encode("latin-1") != want:
            bad.append(("C10", "content:%s:%s" % (sc["cmd"], kd), {"scenario": sc, "file": n, "content": data}))
    # --- temp files (C15 / C10)
    if obs["left"]:
        fault = [k for k in kinds if k in ("perr", "perrl", "terr", "undec")]
        prop = "C15" if fault else "C10"
        bad.append((prop, "temp-left:%s:%s:coe=%s" % (sc["cmd"], "+".join(sorted(set(fault))) or "-", "T" if sc["coe"] else "F"),
                    {"scenario": sc, "argv": obs["argv"], "left": obs["left"]}))
    # --- visited files: exactly those the model visits, in order (C13/C15 continue / stop)
    begun = [e["file"] for e in obs["events"] if e["ev"] == "file_begin" and e["file"] != "(stdin)"]
    vis_exp = ["f%d.md" % i for i in sorted(rec["visited"])] if sc["cmd"] in ("scan", "fix") else []
    if sc["cmd"] in ("scan", "fix") and begun != vis_exp:
        bad.append(("C15", "visited:%s:coe=%s:expected=%s:observed=%s" % (sc["cmd"], "T" if sc["coe"] else "F", _kk(vis_exp, kinds), _kk(begun, kinds)),
                    {"scenario": sc, "argv": obs["argv"], "expected": vis_exp, "observed": begun}))
    # --- failures printed iff the model says so (scan)
    has_fail = any((": MD" in l) for l in obs["out"].splitlines())
    if sc["cmd"] in ("scan", "stdin") and (rec["nfail"] > 0) != has_fail:
        bad.append(("C18", "failures-printed:%s:expected=%s" % (sc["cmd"], rec["nfail"] > 0), {"scenario": sc, "argv": obs["argv"], "out": obs["out"][-300:]}))
    # --- the error names the failing file (C15)
    failing = sorted(set(rec["failed"]) | ({rec["midfile"]} if rec["midfile"] else set()))
    for i in failing:
        if sc["cmd"] == "stdin":
            continue
        n = "f%d.md" % i
        if n not in obs["err"]:
            bad.append(("C15", "error-does-not-name-file:%s:%s:coe=%s" % (sc["cmd"], kind_of_idx(i), "T" if sc["coe"] else "F"),
                        {"scenario": sc, "argv": obs["argv"], "stderr": obs["err"][-400:]}))
    if rec["category"] == "SYSTEM_ERROR" and not obs["err"].strip():
        bad.append(("C15", "error-not-reported:%s" % sc["cmd"], {"scenario": sc, "argv": obs["argv"]}))
    return bad


def _kk(namelist, kinds):
    out = []
    for n in namelist:
        try:
            out.append(kinds[int(n[1:-3]) - 1])
        except (ValueError, IndexError):
            out.append(n)
    return "+".join(out) or "-"


# ---- trace validation ------------------------------------------------------------------------

KEEP = {"file_begin", "failure", "level_begin", "tmp_new", "tmp_del", "writeback_begin", "writeback_end",
        "pass_end", "level_end", "scan_error", "announce", "file_end", "exit", "parse_end"}


def trace_of(argv_mode, scheme, coe, events, code, file_rank):
    """Frame the recorded probe events as a Trace_App trace.
    argv_mode: 'scan'|'fix'|'stdin'|'other' (from the command line), scheme: scheme the command line asks for
    (argument beats configuration), file_rank: name -> position in sorted order."""
    tr = []
    started = False

    def rank(n):
        if n == "(stdin)":
            return 1
        if n not in file_rank:
            # temp file standing in for stdin, or an unknown name: rank past every known one
            return file_rank.setdefault(n, max(file_rank.values(), default=0) + 1)
        return file_rank[n]
    for e in events:
        ev = e["ev"]
        if ev == "enabled" and not started:
            started = True
            tr.append({"ev": "run", "mode": argv_mode, "scheme": scheme, "coe": bool(coe)})
            continue
        if ev not in KEEP:
            continue
        if ev == "parse_end":
            if not e["ok"]:
                tr.append({"ev": "parse_fail"})
            continue
        if ev == "file_begin":
            tr.append({"ev": ev, "f": rank(e["file"])})
        elif ev == "failure":
            tr.append({"ev": ev, "suppressed": bool(e["suppressed"])})
        elif ev == "level_begin":
            tr.append({"ev": ev, "f": rank(e["file"]), "level": e["level"]})
        elif ev in ("tmp_new", "tmp_del"):
            tr.append({"ev": ev, "tmp": e["tmp"]})
        elif ev == "writeback_begin":
            tr.append({"ev": ev, "f": rank(e["file"]), "tmp": e["tmp"]})
        elif ev == "writeback_end":
            tr.append({"ev": ev, "f": rank(e["file"])})
        elif ev == "pass_end":
            tr.append({"ev": ev, "f": rank(e["file"]), "fixed": bool(e["tokens_fixed"] or e["lines_fixed"])})
        elif ev == "level_end":
            tr.append({"ev": ev, "f": rank(e["file"]), "keep": bool(e["keep"]), "next_level": e["next_level"]})
        elif ev == "scan_error":
            tr.append({"ev": ev, "f": rank(e["file"]), "shortcut": bool(e["shortcut"])})
        elif ev == "announce":
            tr.append({"ev": ev, "f": rank(e["file"])})
        elif ev == "file_end":
            tr.append({"ev": ev, "f": rank(e["file"]), "ok": bool(e["ok"]), "fixed": bool(e["fixed"])})
        elif ev == "exit":
            tr.append({"ev": ev, "category": e["category"], "scheme": e["scheme"], "code": e["code"]})
    tr.append({"ev": "proc_exit", "code": code if isinstance(code, int) else -1})
    return tr


def validate_traces(traces, tag="app"):
    """Run Trace_App over all traces. Returns (tlc result, verdicts: list of ('ACCEPT'|'REJECT'|'INVFAIL', pos, info))."""
    d = tlc.scratch("trace-")
    path = os.path.join(d, "traces_%s.json" % tag)
    with open(path, "w", encoding="utf-8") as f:
        json.dump(traces, f)
    try:
        r = tlc.run("trace/Trace_App", "Trace_App.cfg", env={"TRACE_FILE": path}, workers=16)
    finally:
        shutil.rmtree(d, ignore_errors=True)
    verdicts = {}
    for rec in r.printed:
        if isinstance(rec, dict) and rec.get("v") in ("ACCEPT", "REJECT", "INVFAIL"):
            verdicts.setdefault(int(rec["tid"]), []).append(rec)
    if not r.ok:
        raise Machinery("Trace_App: TLC reports %s" % r.violated)
    out = []
    for i in range(1, len(traces) + 1):
        v = verdicts.get(i)
        if not v or len(v) != 1:
            raise Machinery("Trace_App: trace %d has %s verdicts" % (i, 0 if not v else len(v)))
        out.append(v[0])
    return r, out


def _parse_tuple(line):
    body = line.strip()[2:-2]
    parts = []
    depth = 0
    cur = ""
    inq = False
    for ch in body:
        if ch == '"':
            inq = not inq
            continue
        if not inq and ch in "<[{(":
            depth += 1
        if not inq and ch in ">]})":
            depth -= 1
        if ch == "," and depth == 0 and not inq:
            parts.append(cur.strip())
            cur = ""
        else:
            cur += ch
    parts.append(cur.strip())
    return parts


def mode_of_cmd(cmd):
    return {"scan": "scan", "fix": "fix", "stdin": "stdin"}.get(cmd, "other")


def scheme_of_sel(sel):
    if sel in ("arg_minimal", "arg_minimal_cfg_default", "cfg_minimal"):
        return "minimal"
    return "default"
