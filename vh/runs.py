"""Execute one CLI invocation of the real code on a private work directory and observe everything:
exit status, stdout/stderr, probe events, which files changed / appeared, temp files left behind."""
import hashlib
import io
import os
import shutil
import sys
import tempfile

from . import faults, impl


def snapshot(d):
    out = {}
    for root, _dirs, files in os.walk(d):
        for f in files:
            p = os.path.join(root, f)
            try:
                with open(p, "rb") as fh:
                    out[os.path.relpath(p, d)] = hashlib.sha256(fh.read()).hexdigest()
            except OSError:
                out[os.path.relpath(p, d)] = "unreadable"
    return out


def execute(files, argv, stdin_bytes=None, dirs=(), env=None, keep_contents=True, timeout=30, cfg_files=()):
    """files: [(relative name, bytes)], argv: CLI arguments (relative paths refer to the work dir)."""
    faults.install_parser_fault()
    faults.reset_counters()
    base = tempfile.mkdtemp(prefix="vhs-", dir="/dev/shm" if os.path.isdir("/dev/shm") else None)
    work = os.path.join(base, "w")               # the scratch TMPDIR is a sibling, so that `*` and `.` see only the scenario's files
    tmpd = os.path.join(base, "_tmp")
    os.mkdir(work)
    os.mkdir(tmpd)
    for d in dirs:
        os.makedirs(os.path.join(work, d), exist_ok=True)
    for n, data in list(files) + list(cfg_files):
        p = os.path.join(work, n)
        os.makedirs(os.path.dirname(p), exist_ok=True)
        with open(p, "wb") as f:
            f.write(data)
    before = snapshot(work)
    old_tmp = tempfile.tempdir
    tempfile.tempdir = tmpd
    saved = {k: os.environ.get(k) for k in ["TMPDIR"] + list(env or {})}
    os.environ["TMPDIR"] = tmpd
    for k, v in (env or {}).items():
        os.environ[k] = v
    old_stdin = sys.stdin
    try:
        if stdin_bytes is not None:
            sys.stdin = io.TextIOWrapper(io.BytesIO(stdin_bytes), encoding="utf-8")
        res = impl.run_cli(argv, cwd=work, timeout=timeout)
    finally:
        sys.stdin = old_stdin
        tempfile.tempdir = old_tmp
        for k, v in saved.items():
            if v is None:
                os.environ.pop(k, None)
            else:
                os.environ[k] = v
    after = snapshot(work)
    left = sorted("_tmp" + os.sep + k for k in snapshot(tmpd))
    changed = sorted(k for k in before if k in after and after[k] != before[k])
    deleted = sorted(k for k in before if k not in after)
    created = sorted(k for k in after if k not in before)
    contents = {}
    if keep_contents:
        for n, _ in files:
            p = os.path.join(work, n)
            if os.path.exists(p):
                with open(p, "rb") as f:
                    contents[n] = f.read()
    shutil.rmtree(base, ignore_errors=True)
    return {"argv": list(argv), "code": res.code, "exc": res.exc, "out": res.out, "err": res.err, "events": res.events,
            "left": left, "changed": changed, "deleted": deleted, "created": created,
            "names": [n for n, _ in files], "contents": contents}


def execute_subprocess(files, argv, timeout=120, env=None):
    """Like execute(), but `python -m pymarkdown` runs in a child process (no in-process state shared between runs:
    needed wherever process-global state such as logging configuration is part of what is varied).  No probe events."""
    import subprocess
    work = tempfile.mkdtemp(prefix="vhp-", dir="/dev/shm" if os.path.isdir("/dev/shm") else None)
    tmpd = os.path.join(work, "_tmp")
    os.mkdir(tmpd)
    for n, data in files:
        p = os.path.join(work, n)
        os.makedirs(os.path.dirname(p), exist_ok=True)
        with open(p, "wb") as f:
            f.write(data)
    before = snapshot(work)
    e = dict(os.environ)
    e.update({"PYTHONPATH": impl.REPO, "TMPDIR": tmpd, "PYMARKDOWN_VERIF": "0"})
    e.update(env or {})
    try:
        p = subprocess.run([sys.executable, "-m", "pymarkdown"] + list(argv), cwd=work, env=e, capture_output=True, text=True, timeout=timeout)
        code, out, err, exc = p.returncode, p.stdout, p.stderr, None
    except subprocess.TimeoutExpired:
        code, out, err, exc = None, "", "", "Timeout"
    after = snapshot(work)
    pre = "_tmp" + os.sep
    contents = {}
    for n, _ in files:
        fp = os.path.join(work, n)
        if os.path.exists(fp):
            with open(fp, "rb") as f:
                contents[n] = f.read()
    res = {"argv": list(argv), "code": code, "exc": exc, "out": out, "err": err, "events": [],
           "left": sorted(k for k in after if k.startswith(pre)),
           "changed": sorted(k for k in before if k in after and after[k] != before[k]),
           "deleted": sorted(k for k in before if k not in after),
           "created": sorted(k for k in after if k not in before and not k.startswith(pre)),
           "names": [n for n, _ in files], "contents": contents}
    shutil.rmtree(work, ignore_errors=True)
    return res
