"""Apalache (symbolic model checker): inductive-invariant checks of small integer/finite-set specifications, as an
unbounded complement to TLC's bounded exploration.  Optional: absent tool or time-out is reported as 'skipped'."""
import os
import shutil
import subprocess

from . import tlc


def inductive(wrapper, base_modules, ind_init="IndInit", ind_inv="IndInv", init="Init", timeout=600, extra=()):
    """wrapper: spec/apa/<name>.tla; base_modules: modules of spec/ it instantiates.  Returns dict(result=ok|violated|skipped, ...)"""
    if shutil.which("apalache-mc") is None:
        return {"result": "skipped", "why": "apalache-mc not on PATH"}
    d = tlc.scratch("apa-")
    try:
        shutil.copy(os.path.join(tlc.SPEC, "apa", wrapper + ".tla"), d)
        for m in base_modules:
            shutil.copy(os.path.join(tlc.SPEC, m + ".tla"), d)
        out = {}
        for name, args in (("initiation", ["--init=" + init, "--inv=" + ind_inv, "--length=0"]),
                           ("consecution", ["--init=" + ind_init, "--inv=" + ind_inv, "--length=1"])):
            try:
                p = subprocess.run(["apalache-mc", "check"] + args + list(extra) + ["--out-dir=" + os.path.join(d, "out"), wrapper + ".tla"],
                                   cwd=d, capture_output=True, text=True, timeout=timeout)
            except subprocess.TimeoutExpired:
                return {"result": "skipped", "why": "time-out in " + name}
            tail = (p.stdout or "")[-400:]
            if "EXITCODE: OK" in tail:
                out[name] = "ok"
            elif "Checker has found an error" in (p.stdout or ""):
                return {"result": "violated", "step": name, "output": tail}
            else:
                return {"result": "skipped", "why": "apalache error in %s: %s" % (name, tail[-200:])}
        out["result"] = "ok"
        return out
    finally:
        shutil.rmtree(d, ignore_errors=True)
