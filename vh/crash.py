"""Crash enumeration for fix write-back: kill the process (SIGKILL) at each system call that touches the target.

Model: spec/FileIO.tla (the target is only ever replaced atomically: in every state, crash included, its content is the
original or a complete result).  Here the real process is run under strace; a dry run lists the system calls on the
target path, then one run per (syscall, occurrence) injects SIGKILL on entry of that call."""
import os
import re
import shutil
import subprocess
import sys
import tempfile

from . import appscen, impl
from .ctx import Machinery

DOCS = {
    "fixable": (appscen.CONTENT["fixable"], [appscen.FIXED["fixable"]]),
    "fixtok": (appscen.CONTENT["fixtok"], [appscen.FIXED["fixtok"]]),
    # two write-backs: after pass 0 (MD009) and after pass 1 (MD012)
    "fix2": (appscen.CONTENT["fix2"], [b"# Title\n\nSome text.  \n\n\n\nMore.\n", appscen.FIXED["fix2"]]),
    "big": (b"# Title\n" + b"".join(b"\nLine %d has trailing spaces.   \n" % i for i in range(400)),
            [b"# Title\n" + b"".join(b"\nLine %d has trailing spaces.  \n" % i for i in range(400))]),
}
_SYSCALL = re.compile(r"^(\d+)\s+(\w+)\((.*)$")
_RET = re.compile(r"=\s+(-?\d+)(?:\s|$)[^=]*$")


def _run(target_dir, target, inject=None, log=None):
    env = dict(os.environ)
    env["PYTHONPATH"] = impl.REPO
    env["TMPDIR"] = os.path.join(target_dir, "_tmp")
    env.pop("PYMARKDOWN_VERIF_TRACE", None)
    cmd = ["strace", "-f", "-qq", "-P", target]
    if log:
        cmd += ["-o", log]
    else:
        cmd += ["-o", "/dev/null"]
    if inject:
        cmd += ["-e", "inject=%s:signal=SIGKILL:when=%d" % inject]
    cmd += [sys.executable, "-m", "pymarkdown", "fix", target]
    p = subprocess.run(cmd, cwd=target_dir, env=env, capture_output=True, text=True, timeout=120)
    return p.returncode, p.stdout, p.stderr


def _one(job):
    name, inject = job
    orig, stages = DOCS[name]
    d = tempfile.mkdtemp(prefix="vhk-", dir="/dev/shm" if os.path.isdir("/dev/shm") else None)
    os.mkdir(os.path.join(d, "_tmp"))
    target = os.path.join(d, "target.md")
    with open(target, "wb") as f:
        f.write(orig)
    log = os.path.join(d, "strace.log") if inject is None else None
    try:
        rc, out, err = _run(d, target, inject, log)
        with open(target, "rb") as f:
            data = f.read()
        calls = []
        if log:
            with open(log, encoding="utf-8", errors="replace") as f:
                for line in f:
                    m = _SYSCALL.match(line)
                    if m:
                        rm = _RET.search(m.group(3))
                        calls.append((m.group(2), m.group(3)[:120], int(rm.group(1)) if rm else None))
        return {"rc": rc, "data": data, "calls": calls, "err": err[-300:], "out": out[-200:]}
    finally:
        shutil.rmtree(d, ignore_errors=True)


def classify(name, data):
    orig, stages = DOCS[name]
    if data == orig:
        return "original"
    if data == stages[-1]:
        return "fixed"
    if data in stages[:-1]:
        return "complete-result-of-earlier-pass"
    if data == b"":
        return "EMPTY"
    if stages[-1].startswith(data) or any(s.startswith(data) for s in stages):
        return "TRUNCATED-PREFIX"
    return "OTHER"


def observed(name, data):
    """what is on disk, as the FileIO abstraction: part + the stages it can belong to"""
    orig, stages = DOCS[name]
    texts = [orig] + list(stages)
    full = [k for k, t in enumerate(texts) if t == data]
    if full:
        return {"part": "full", "stages": full}
    if data == b"":
        return {"part": "empty", "stages": list(range(len(texts)))}
    pre = [k for k, t in enumerate(texts) if t.startswith(data)]
    if pre:
        return {"part": "partial", "stages": pre}
    return {"part": "other", "stages": []}


def file_events(name, calls, upto=None):
    """FileIO events of the system calls on the target (strace log of the dry run), optionally only those before the
    occurrence `upto` = (syscall, k)"""
    orig, stages = DOCS[name]
    evs = [{"ev": "begin", "npasses": len(stages)}]
    wfd, cum, nwb = None, 0, 0
    counts = {}
    for sc, args, ret in calls:
        counts[sc] = counts.get(sc, 0) + 1
        if upto is not None and (sc, counts[sc]) == upto:
            break
        fm = re.match(r"\s*(\w+)", args)
        first = fm.group(1) if fm else ""
        if sc in ("openat", "open", "creat") and ("O_WRONLY" in args or "O_RDWR" in args or "O_TRUNC" in args or sc == "creat"):
            if ret is not None and ret >= 0:
                wfd, cum = str(ret), 0
                nwb += 1
                evs.append({"ev": "open_trunc" if ("O_TRUNC" in args or sc == "creat") else "open_write_keep"})
            else:
                evs.append({"ev": "other"})
        elif sc in ("write", "sendfile", "pwrite64", "writev") and wfd is not None and first == wfd:
            if ret and ret > 0:
                cum += ret
                total = len(stages[min(nwb, len(stages)) - 1]) if nwb else 0
                evs.append({"ev": "write", "last": cum == total, "cum": cum, "total": total})
            else:
                evs.append({"ev": "other"})
        elif sc == "copy_file_range" and wfd is not None and len(args.split(",")) > 2 and args.split(",")[2].strip() == wfd:
            if ret and ret > 0:
                cum += ret
                total = len(stages[min(nwb, len(stages)) - 1]) if nwb else 0
                evs.append({"ev": "write", "last": cum == total, "cum": cum, "total": total})
            else:
                evs.append({"ev": "other"})
        elif sc == "close" and wfd is not None and first == wfd:
            wfd = None
            evs.append({"ev": "close_w"})
        elif sc in ("rename", "renameat", "renameat2") and ret == 0:
            evs.append({"ev": "rename"})
        elif sc in ("truncate", "ftruncate", "unlink", "unlinkat") and ret == 0:
            evs.append({"ev": sc})                     # no action of FileIO: rejected
        else:
            evs.append({"ev": "other"})
    return evs


def model_check(ctx, tier="quick"):
    """spec/FileIO.tla: replace-by-rename keeps the target complete in every state; the pinned procedure does not (the
    negative configurations MUST fail: they are the specification-level statement of the two known findings)"""
    from . import tlc
    for cfg, must_hold in (("MC_FileIO_rename.cfg", True), ("MC_FileIO_rename1.cfg", True), ("MC_FileIO_pinned.cfg", True),
                           ("MC_FileIO_pinned_neg.cfg", False), ("MC_FileIO_levels_neg.cfg", False)):
        r = tlc.run("mc/MC_FileIO", cfg, timeout=300)
        ctx.ev.add_tlc("MC_FileIO %s (%s)" % (cfg, "invariants hold" if must_hold else "negative configuration: must violate, and does: %s" % r.violated), r)
        if r.ok != must_hold:
            raise Machinery("MC_FileIO %s: expected %s, TLC says %s %s" % (cfg, "success" if must_hold else "a violation", r.ok, r.violated))
    if tier == "thorough":
        # unbounded: replace-by-rename keeps the target complete for ANY number of write-backs and write calls (inductive invariant, Apalache)
        from . import apalache
        a = apalache.inductive("FileIO_apa", ["FileIO"])
        ctx.ev.parts["apalache_FileIO_inductive_invariant"] = a
        if a["result"] == "violated":
            raise Machinery("FileIO_apa: IndInv is not inductive: %s" % a)


def enumerate_kills(ctx, tier):
    if shutil.which("strace") is None:
        raise Machinery("strace is not available")
    model_check(ctx, tier)
    names = ["fixable", "fix2"] if tier == "quick" else ["fixable", "fixtok", "fix2", "big"]
    dry = impl.pmap(_one, [(n, None) for n in names], procs=len(names))
    jobs = []
    for n, r in zip(names, dry):
        if r["rc"] != 3 or classify(n, r["data"]) != "fixed":
            raise Machinery("crash enumeration: dry run of %s under strace gave rc=%s, state=%s: %s" % (n, r["rc"], classify(n, r["data"]), r["err"]))
        # system calls on the target from the first open-for-writing on
        seen_write_open = False
        counts = {}
        for sc, args, _ret in r["calls"]:
            counts[sc] = counts.get(sc, 0) + 1
            if not seen_write_open and sc in ("openat", "open", "creat") and ("O_WRONLY" in args or "O_RDWR" in args or "O_TRUNC" in args):
                seen_write_open = True
            if not seen_write_open and sc not in ("rename", "renameat", "renameat2", "unlink", "unlinkat", "truncate", "ftruncate"):
                continue
            jobs.append((n, (sc, counts[sc])))
        if not any(j[0] == n for j in jobs):
            raise Machinery("crash enumeration: no write system call on the target was seen for %s" % n)
    res = impl.pmap(_one, jobs, procs=16)
    states = {}
    # ---- the recorded system calls against spec/FileIO.tla: the complete runs, and every killed run up to its kill point
    from . import tracev
    dry_by_name = dict(zip(names, dry))
    traces, tmeta = [], []
    for n in names:
        traces.append(file_events(n, dry_by_name[n]["calls"]) + [dict(observed(n, dry_by_name[n]["data"]), ev="end")])
        tmeta.append((n, None))
    for (n, inj), r in zip(jobs, res):
        if r["rc"] in (-9, 137):
            traces.append(file_events(n, dry_by_name[n]["calls"], upto=inj) + [dict(observed(n, r["data"]), ev="crash")])
            tmeta.append((n, inj))
    # binding self-test: a dropped close and a falsified observation must both be rejected
    base = traces[0]
    selftest = [[e for e in base if e["ev"] != "close_w"], base[:-1] + [dict(base[-1], part="partial")]]
    traces += selftest
    tr_, verdicts = tracev.validate("trace/Trace_FileIO", "Trace_FileIO.cfg", traces, "fileio")
    if any(v["v"] != "REJECT" for v in verdicts[-2:]):
        raise Machinery("Trace_FileIO accepted a corrupted trace: the specification is not bound to the recorded system calls")
    traces, verdicts = traces[:-2], verdicts[:-2]
    ctx.ev.add_tlc("Trace_FileIO (%d system-call traces: complete fix runs and runs killed at each call)" % len(traces), tr_)
    ctx.ev.cov["traces_validated_against_impl"] += len(traces)
    procs = {}
    for (n, inj), t, v in zip(tmeta, traces, verdicts):
        if v["v"] == "ACCEPT":
            procs[v["what"]] = procs.get(v["what"], 0) + 1
            continue
        ev = t[int(v["pos"]) - 1] if 0 < int(v["pos"]) <= len(t) else {}
        ctx.violation("fileio-trace-reject:%s:%s" % (ev.get("ev"), ev.get("part", "")),
                      {"document": n, "kill_at": inj, "rejected_event": ev, "position": v["pos"], "model_state": v.get("state"), "trace": t[-8:]})
    ctx.ev.parts["write_back_procedure_inferred_by_TLC"] = procs
    for (n, (sc, k)), r in zip(jobs, res):
        st = classify(n, r["data"])
        states[st] = states.get(st, 0) + 1
        if r["rc"] not in (-9, 137) and st not in ("fixed",):
            # the injection did not kill (syscall count differs between runs): not a verdict
            continue
        if st in ("original", "fixed"):
            continue
        if st == "complete-result-of-earlier-pass":
            sig = "crash:intermediate-pass-result:%s" % n
        else:
            sig = "crash:%s:kill-at-%s" % (st, sc)
        ctx.violation(sig, {"document": n, "kill_at": {"syscall": sc, "occurrence": k}, "target_after_kill": r["data"][:200].decode("latin-1"),
                            "length_after_kill": len(r["data"]), "state": st})
    ctx.ev.cov["evaluations"] += len(jobs)
    ctx.ev.cov["distinct_nontrivial"] += len(jobs)
    ctx.ev.parts["crash_points"] = len(jobs)
    ctx.ev.parts["target_state_after_kill"] = states
    if jobs:
        ctx.ev.sample({"kill": {"document": jobs[0][0], "syscall": jobs[0][1][0], "occurrence": jobs[0][1][1]},
                       "target_state": classify(jobs[0][0], res[0]["data"])})
