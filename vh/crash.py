"""Crash enumeration for fix write-back: kill the process (SIGKILL) at each system call that touches the target.

Model: spec/FileIO.tla (the target is only ever replaced atomically: in every state, crash included, its content is the
original or a complete result).  Here the real process is run under strace; a dry run lists the system calls on the
target path, then one run per (syscall, occurrence) injects SIGKILL on entry of that call."""
import os
import re
import shutil
import subprocess
import sys
import tempfile

from . import appscen, impl
from .ctx import Machinery

DOCS = {
    "fixable": (appscen.CONTENT["fixable"], [appscen.FIXED["fixable"]]),
    "fixtok": (appscen.CONTENT["fixtok"], [appscen.FIXED["fixtok"]]),
    # two write-backs: after pass 0 (MD009) and after pass 1 (MD012)
    "fix2": (appscen.CONTENT["fix2"], [b"# Title\n\nSome text.  \n\n\n\nMore.\n", appscen.FIXED["fix2"]]),
    "big": (b"# Title\n" + b"".join(b"\nLine %d has trailing spaces.   \n" % i for i in range(400)),
            [b"# Title\n" + b"".join(b"\nLine %d has trailing spaces.  \n" % i for i in range(400))]),
}
_SYSCALL = re.compile(r"^(\d+)\s+(\w+)\((.*)$")


def _run(target_dir, target, inject=None, log=None):
    env = dict(os.environ)
    env["PYTHONPATH"] = impl.REPO
    env["TMPDIR"] = os.path.join(target_dir, "_tmp")
    env.pop("PYMARKDOWN_VERIF_TRACE", None)
    cmd = ["strace", "-f", "-qq", "-P", target]
    if log:
        cmd += ["-o", log]
    else:
        cmd += ["-o", "/dev/null"]
    if inject:
        cmd += ["-e", "inject=%s:signal=SIGKILL:when=%d" % inject]
    cmd += [sys.executable, "-m", "pymarkdown", "fix", target]
    p = subprocess.run(cmd, cwd=target_dir, env=env, capture_output=True, text=True, timeout=120)
    return p.returncode, p.stdout, p.stderr


def _one(job):
    name, inject = job
    orig, stages = DOCS[name]
    d = tempfile.mkdtemp(prefix="vhk-", dir="/dev/shm" if os.path.isdir("/dev/shm") else None)
    os.mkdir(os.path.join(d, "_tmp"))
    target = os.path.join(d, "target.md")
    with open(target, "wb") as f:
        f.write(orig)
    log = os.path.join(d, "strace.log") if inject is None else None
    try:
        rc, out, err = _run(d, target, inject, log)
        with open(target, "rb") as f:
            data = f.read()
        calls = []
        if log:
            with open(log, encoding="utf-8", errors="replace") as f:
                for line in f:
                    m = _SYSCALL.match(line)
                    if m:
                        calls.append((m.group(2), m.group(3)[:120]))
        return {"rc": rc, "data": data, "calls": calls, "err": err[-300:], "out": out[-200:]}
    finally:
        shutil.rmtree(d, ignore_errors=True)


def classify(name, data):
    orig, stages = DOCS[name]
    if data == orig:
        return "original"
    if data == stages[-1]:
        return "fixed"
    if data in stages[:-1]:
        return "complete-result-of-earlier-pass"
    if data == b"":
        return "EMPTY"
    if stages[-1].startswith(data) or any(s.startswith(data) for s in stages):
        return "TRUNCATED-PREFIX"
    return "OTHER"


def enumerate_kills(ctx, tier):
    if shutil.which("strace") is None:
        raise Machinery("strace is not available")
    names = ["fixable", "fix2"] if tier == "quick" else ["fixable", "fixtok", "fix2", "big"]
    dry = impl.pmap(_one, [(n, None) for n in names], procs=len(names))
    jobs = []
    for n, r in zip(names, dry):
        if r["rc"] != 3 or classify(n, r["data"]) != "fixed":
            raise Machinery("crash enumeration: dry run of %s under strace gave rc=%s, state=%s: %s" % (n, r["rc"], classify(n, r["data"]), r["err"]))
        # system calls on the target from the first open-for-writing on
        seen_write_open = False
        counts = {}
        for sc, args in r["calls"]:
            counts[sc] = counts.get(sc, 0) + 1
            if not seen_write_open and sc in ("openat", "open", "creat") and ("O_WRONLY" in args or "O_RDWR" in args or "O_TRUNC" in args):
                seen_write_open = True
            if not seen_write_open and sc not in ("rename", "renameat", "renameat2", "unlink", "unlinkat", "truncate", "ftruncate"):
                continue
            jobs.append((n, (sc, counts[sc])))
        if not any(j[0] == n for j in jobs):
            raise Machinery("crash enumeration: no write system call on the target was seen for %s" % n)
    res = impl.pmap(_one, jobs, procs=16)
    states = {}
    for (n, (sc, k)), r in zip(jobs, res):
        st = classify(n, r["data"])
        states[st] = states.get(st, 0) + 1
        if r["rc"] not in (-9, 137) and st not in ("fixed",):
            # the injection did not kill (syscall count differs between runs): not a verdict
            continue
        if st in ("original", "fixed"):
            continue
        if st == "complete-result-of-earlier-pass":
            sig = "crash:intermediate-pass-result:%s" % n
        else:
            sig = "crash:%s:kill-at-%s" % (st, sc)
        ctx.violation(sig, {"document": n, "kill_at": {"syscall": sc, "occurrence": k}, "target_after_kill": r["data"][:200].decode("latin-1"),
                            "length_after_kill": len(r["data"]), "state": st})
    ctx.ev.cov["evaluations"] += len(jobs)
    ctx.ev.cov["distinct_nontrivial"] += len(jobs)
    ctx.ev.parts["crash_points"] = len(jobs)
    ctx.ev.parts["target_state_after_kill"] = states
    if jobs:
        ctx.ev.sample({"kill": {"document": jobs[0][0], "syscall": jobs[0][1][0], "occurrence": jobs[0][1][1]},
                       "target_state": classify(jobs[0][0], res[0]["data"])})
