"""Seeded generator of 'ordinary but varied' Markdown documents: leaf blocks with inline content, composed inside
block quotes and lists (nesting <= 3), with lazy continuation lines, tabs, and multi-line inline elements.
It complements the exhaustive small-document spaces enumerated by TLC from spec/MdBlocks.tla: those cover every
(parser state, line shape) transition for tiny documents; these cover combinations of realistic constructs."""
import random

WORDS = ["alpha", "beta", "gamma", "delta", "text", "more", "words", "here", "foo", "bar"]


def words(rnd, n):
    return " ".join(rnd.choice(WORDS) for _ in range(n))


INLINES = [
    lambda r: "*%s*" % words(r, 1), lambda r: "**%s**" % words(r, 2), lambda r: "_%s_" % words(r, 1),
    lambda r: "* %s *" % words(r, 1), lambda r: "** %s **" % words(r, 1), lambda r: "_ %s _" % words(r, 1),
    lambda r: "`%s`" % words(r, 1), lambda r: "` %s `" % words(r, 1), lambda r: "``a`b``",
    lambda r: "[%s](/url)" % words(r, 1), lambda r: "[ %s ](/url 'title')" % words(r, 1), lambda r: "[%s][ref]" % words(r, 1),
    lambda r: "[ref]", lambda r: "[%s][]" % "ref", lambda r: "![alt](/img.png)", lambda r: "![](/img.png)",
    lambda r: "<https://example.com>", lambda r: "https://bare.example.com", lambda r: "<span>html</span>",
    lambda r: "&amp; &copy; &#35;", lambda r: "\\* escaped \\_", lambda r: "a\ttab", lambda r: "[link](</a b> \"t\")",
    lambda r: "[link](\n/url)", lambda r: "*em\nacross*", lambda r: "`code\nspan`", lambda r: "<b\nattr='x'>", lambda r: "[](#)",
    lambda r: "[text]()", lambda r: "**_nested_**", lambda r: "~~strike~~", lambda r: "MARKDOWN markdown",
]
ENDS = ["", "", "", "  ", "\\", " ", "   ", "\t"]


def para_lines(rnd, nlines=None):
    n = nlines or rnd.choice([1, 1, 2, 3, 4])
    if nlines is None and rnd.random() < 0.4:
        # plain lines with exactly one inline element, on a chosen line
        n = rnd.choice([2, 3, 3, 4, 5])
        k = rnd.randrange(n)
        out = []
        for i in range(n):
            line = words(rnd, rnd.randint(2, 9))
            if i == k:
                line = "%s %s %s" % (words(rnd, rnd.randint(1, 3)), rnd.choice(INLINES)(rnd), words(rnd, rnd.randint(0, 2)))
            out += line.rstrip().split("\n")
        return out
    out = []
    for i in range(n):
        parts = [words(rnd, rnd.randint(1, 4))]
        for _ in range(rnd.choice([0, 1, 1, 2])):
            parts.append(rnd.choice(INLINES)(rnd))
            parts.append(words(rnd, rnd.randint(0, 2)))
        line = " ".join(p for p in parts if p)
        if i < n - 1:
            line += rnd.choice(ENDS)
        out += line.split("\n")
    if rnd.random() < 0.1:
        out[-1] += rnd.choice(["   ", " ", "\t"])
    if rnd.random() < 0.08:
        out[rnd.randrange(len(out))] += " " + words(rnd, 18)
    return out


def leaf(rnd):
    k = rnd.choice(["para"] * 6 + ["atx"] * 3 + ["setext", "fence", "fence", "icode", "html", "hr", "lrd", "atx_closed", "fence_tilde", "para_hash"])
    if k == "para":
        return para_lines(rnd)
    if k == "atx":
        return ["%s%s%s" % ("#" * rnd.randint(1, 4), rnd.choice([" ", " ", "  ", "\t"]), para_lines(rnd, 1)[0])]
    if k == "atx_closed":
        return ["## %s ##" % words(rnd, 2)]
    if k == "para_hash":
        return [rnd.choice(["#nospace heading", "#  two", "  # indented heading", "####### seven"])]
    if k == "setext":
        return para_lines(rnd, rnd.choice([1, 1, 2])) + [rnd.choice(["===", "---", "=", "-----  "])]
    if k == "fence":
        return ["```" + rnd.choice(["", "text", "python", " text "])] + [words(rnd, 3) + rnd.choice(["", "  ", "\t"]) for _ in range(rnd.randint(0, 3))] + ["```"]
    if k == "fence_tilde":
        return ["~~~" + rnd.choice(["", "text"]), words(rnd, 2), "", words(rnd, 1), "~~~"]
    if k == "icode":
        return ["    " + words(rnd, 2) + rnd.choice(["", "  "]) for _ in range(rnd.randint(1, 3))]
    if k == "html":
        return rnd.choice([["<div>", words(rnd, 2), "</div>"], ["<!-- comment -->"], ["<table>", "<tr><td>x</td></tr>", "</table>"], ["<h1>title</h1>"],
                           ["<script>", "x", "</script>"]])
    if k == "hr":
        return [rnd.choice(["---", "***", "___", "- - -", "* * *", "-----"])]
    if k == "lrd":
        return rnd.choice([["[ref]: /url"], ["[ref]: /url 'title'"], ["[ref]:", "/url", "'multi", "line title'"], ["[Ref]: </u v>"], ["[other]: /o", "[ref]: /dup"]])
    raise ValueError(k)


def blocks(rnd, depth, n=None):
    """list of lines for a sequence of blocks at this container depth"""
    out = []
    n = n or rnd.randint(1, 3)
    for b in range(n):
        if b and rnd.random() < 0.85:
            out += [""] * rnd.choice([1, 1, 1, 2, 3])
        if depth > 0 and rnd.random() < 0.45:
            out += container(rnd, depth - 1)
        else:
            out += leaf(rnd)
    return out


def container(rnd, depth):
    k = rnd.choice(["bq", "bq", "ul", "ul", "ol"])
    inner = blocks(rnd, depth, rnd.randint(1, 2))
    if k == "bq":
        pref = rnd.choice(["> ", "> ", ">", ">  ", " > ", ">\t"])
        lazy = rnd.random() < 0.25
        out = []
        for i, l in enumerate(inner):
            if lazy and i > 0 and l and inner[i - 1] and not l.startswith(("#", ">", "-", "*", "+", "`", "~", "=", "    ", "<", "[")) and rnd.random() < 0.5:
                out.append(l)
            else:
                out.append((pref if l else pref.rstrip(" \t") if rnd.random() < 0.7 else pref) + l)
        return out
    items = rnd.randint(1, 3)
    out = []
    start = rnd.choice([1, 1, 1, 0, 2, 9, 10])
    bullet = rnd.choice(["-", "-", "*", "+"])
    for it in range(items):
        body = inner if it == 0 else blocks(rnd, depth, 1)
        if k == "ul":
            marker = (bullet if rnd.random() < 0.9 else rnd.choice("-*+")) + rnd.choice([" ", " ", " ", "  ", "   ", "\t"])
        else:
            marker = "%d%s%s" % (start + (it if rnd.random() < 0.8 else 0), rnd.choice([".", ".", ")"]), rnd.choice([" ", " ", "  "]))
        ind = " " * len(marker.expandtabs(4))
        if rnd.random() < 0.1:
            ind = ind[:-1]
        first = True
        for l in body:
            if first:
                out.append(marker + l if l else marker.rstrip(" \t"))
                first = False
            elif not l:
                out.append("")
            else:
                out.append(ind + l)
        if it < items - 1 and rnd.random() < 0.3:
            out.append("")
    return out


LEAF_KINDS = ["para", "atx", "setext", "fence", "icode", "html", "hr", "lrd", "fence_tilde", "para_hash"]


def leaf_of(rnd, k):
    if k == "para":
        return para_lines(rnd)
    saved = rnd.choice
    try:
        # force the kind: leaf() picks its kind with the first rnd.choice call
        first = [True]

        def forced(seq):
            if first[0]:
                first[0] = False
                return k
            return saved(seq)
        rnd.choice = forced
        return leaf(rnd)
    finally:
        rnd.choice = saved


def systematic(seed_, n, pool=None):
    """documents '<container>{ leaf a, leaf b, leaf c }' for a seeded sample of all (container, a, b, c)"""
    rnd = random.Random(0x5eed)
    combos = [(c, a, b, d) for c in ("bq", "bq-nospace", "ul", "ol", "bq-ul", "ul-bq", "top") for a in LEAF_KINDS for b in LEAF_KINDS for d in LEAF_KINDS + ["ul-item", "ol-item"]]
    rnd.shuffle(combos)
    combos = combos[:(pool or SYS_POOL)]
    pick = set(range(len(combos))) if n >= len(combos) else set(random.Random(seed_).sample(range(len(combos)), n))
    out = []
    for ci, (c, a, b, d) in enumerate(combos):
        rnd = random.Random(ci * 7919 + 13)           # content depends on the pool index only
        if ci not in pick:
            continue
        lines = []
        for i, kd in enumerate((a, b, d)):
            if i:
                lines.append("")
            if kd == "ul-item":
                lines += ["%s item" % rnd.choice("-+*"), "%s two" % rnd.choice("-+*")][: rnd.randint(1, 2)]
            elif kd == "ol-item":
                lines += ["1. one", "1. two"]
            else:
                lines += leaf_of(rnd, kd)
        for layer in reversed(c.split("-")) if c != "top" and c != "bq-nospace" else ([c] if c != "top" else []):
            if layer in ("bq", "bq-nospace"):
                p = "> " if layer == "bq" else ">"
                lines = [(p + l) if l else ">" for l in lines]
            elif layer == "ul":
                lines = [("- " + l if i == 0 else ("  " + l if l else "")) for i, l in enumerate(lines)]
            elif layer == "ol":
                lines = [("1. " + l if i == 0 else ("   " + l if l else "")) for i, l in enumerate(lines)]
        head = ["# Title", ""] if rnd.random() < 0.7 else []
        out.append(("sys/%d/%s/%s-%s-%s" % (ci, c, a, b, d), "\n".join(head + lines) + "\n"))
    return out


def document(seed_):
    rnd = random.Random(seed_)
    lines = []
    if rnd.random() < 0.7:
        lines += ["# " + words(rnd, 2), ""]
    lines += blocks(rnd, rnd.choice([0, 1, 2, 2, 3]), rnd.randint(1, 4))
    if rnd.random() < 0.06:
        k = rnd.randrange(len(lines) + 1)
        lines.insert(k, rnd.choice(["<!-- pyml disable-next-line md013-->", "<!--- pyml disable-num-lines 2 md009,md010-->", "<!-- pyml disable-next-line no-such-rule-->"]))
    text = "\n".join(lines)
    end = rnd.choice(["\n", "\n", "\n", "\n", "", "\n\n"])
    return text + end


POOL = 6000          # the fixed pool of generated documents: gen/0 .. gen/POOL-1 (independent of VERIF_SEED)
SYS_POOL = 8000


def documents(n, seed_, pool=POOL):
    """n documents of the fixed pool gen/0 .. gen/pool-1; VERIF_SEED only chooses WHICH ones (so that every run explores a
    subset of what the thorough tier explores completely, and known findings can be keyed by document)."""
    idx = range(pool) if n >= pool else sorted(random.Random(seed_).sample(range(pool), n))
    return [("gen/%d" % i, document(i)) for i in idx]


# ---- fix families: a trigger of each fix-capable rule inside nested structures, after containers that have already ended ----
FIX_TRIGGERS = {
    "md012": ["", "", "and wait."],
    "md031": ["```text", "code", "```", "and wait."],
    "md009": ["text   ", "more"],
    "md010": ["a\ttab here"],
    "md019": ["", "##  Heading two", "", "text"],
    "md021": ["", "##  Closed  ##", "", "text"],
    "md023": ["", " ## Indented", "", "text"],
    "md030": ["", "-  wide", "-  wide two"],
    "md007": ["", "   - over", "   - indented"],
    "md004": ["", "* star", "* star two"],
    "md005": ["", "- a", " - b"],
    "md029": ["", "1. one", "1. two", "3. three"],
    "md035": ["", "***", "", "---", "", "end"],
    "md046": ["", "    indented code", "", "```text", "fenced", "```", "", "end"],
    "md048": ["", "~~~text", "a", "~~~", "", "```text", "b", "```", "", "end"],
    "md037": ["with * spaced emphasis * inside"],
    "md038": ["with ` spaced code ` inside"],
    "md039": ["with [ spaced link ](/url) inside"],
    "md001": ["", "#### deep", "", "text"],
    "md001chain": ["", "### skips one", "", "text", "", "#### follows", "", "##### and deeper", "", "more"],
    "md027": ["", ">  wide quote", ">  again"],
    "md022": ["## Heading", "text"],
    "md032": ["- tight list", "text after"],
}
FIX_HISTORIES = {
    "h0": [],
    "h1": [["Get the tools", "- compiler", "- linker"]],
    "h2": [["Get the tools", "- compiler", "- linker"], ["Get the sources", "- main repo", "- submodules"]],
    "h3": [["Quote first", "> quoted", "> text"], ["Then a list", "1. one", "2. two"]],
    "h4": [["Deep", "- level two", "  - level three", "  - again"]],
}
FIX_OUTERS = ("top", "ul", "ol", "bq", "bq-ul")


def _wrap(outer, items):
    """items: list of line lists; the outer container turns each into an item (ul/ol), or all into one quote"""
    def item(lines, first, pad):
        return [(first + l if i == 0 else (pad + l if l else "")) for i, l in enumerate(lines)]
    if outer == "top":
        out = []
        for it in items:
            out += it + [""]
        return out[:-1]
    if outer == "ul":
        return [l for it in items for l in item(it, "- ", "  ")]
    if outer == "ol":
        return [l for k, it in enumerate(items) for l in item(it, "%d. " % (k + 1), "   ")]
    if outer == "bq":
        return [("> " + l if l else ">") for l in _wrap("top", items)]
    if outer == "bq-ul":
        return [("> " + l if l else ">") for l in _wrap("ul", items)]
    raise ValueError(outer)


def fix_families():
    """fixed list of (name, text): history x outer container x trigger x suffix"""
    out = []
    for hn, hist in sorted(FIX_HISTORIES.items()):
        for outer in FIX_OUTERS:
            for tn, trig in sorted(FIX_TRIGGERS.items()):
                for sn, suffix in (("end", []), ("item", [["Done"]])):
                    items = [list(h) for h in hist] + [["Build it"] + list(trig)] + [list(s) for s in suffix]
                    lines = ["# Title", ""] + _wrap(outer, items)
                    out.append(("fixfam/%s/%s/%s/%s" % (hn, outer, tn, sn), "\n".join(lines) + "\n"))
    return out


# ---- repetition families: the same construct three times (rules that remember what they saw; reports must stay unique) ----
REPEAT_BLOCKS = {
    "quote": "> quote %d", "bullet": "- item %d", "ordered": "1. item %d", "atx": "# heading %d", "setext": "Heading %d\n---",
    "fence": "```text\ncode %d\n```", "icode": "    code %d", "hr": "---", "html": "<div>\nhtml %d\n</div>", "para": "paragraph %d",
    "lrd": "[ref%d]: /url%d",
}


def repeat_families():
    """fixed list of (name, text)"""
    def inst(tpl, k):
        return tpl.replace("%d", str(k))

    def wrap(w, text):
        ls = text.split("\n")
        if w == "bq":
            return "\n".join(("> " + l) if l else ">" for l in ls)
        if w == "li":
            return "\n".join((("- " if i == 0 else "  ") + l) if l else "" for i, l in enumerate(ls))
        return text
    out = []
    for kn, tpl in sorted(REPEAT_BLOCKS.items()):
        for sn, sep in (("1blank", "\n\n"), ("2blank", "\n\n\n"), ("0blank", "\n")):
            body = sep.join(inst(tpl, k) for k in (1, 2, 3))
            for w in ("top", "bq", "li"):
                out.append(("repeat/%s/%s/%s" % (kn, sn, w), "# Title\n\n" + wrap(w, body) + "\n"))
    names = sorted(REPEAT_BLOCKS)
    for a in names:
        for b in names:
            if a != b:
                body = "\n\n".join((inst(REPEAT_BLOCKS[a], 1), inst(REPEAT_BLOCKS[b], 2), inst(REPEAT_BLOCKS[a], 3)))
                out.append(("repeat/%s-%s-%s" % (a, b, a), "# Title\n\n" + body + "\n"))
    return out
