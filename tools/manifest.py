#!/venv/bin/python
"""Regenerate MANIFEST.json from the table below (run from /verif)."""
import json

CLAIMED = {}
NA = {}


def claim(pid, category, text, note, technique, engine="tlc"):
    CLAIMED[pid] = dict(category=category, text=text, note=note, technique=technique, engine=engine)


claim("C18", "model_checking",
      "TLC checks App's invariants (exit table, error never masked, precedence of categories) over every behaviour its action "
      "guards allow; every abstract scenario TLC enumerates for MC_AppScen (command x scheme selection x configuration state x "
      "continue-on-error x sequence of file kinds; <=2 files quick, <=3 thorough) is replayed into the real CLI and its exit status "
      "and category compared with the specification's; the probe events of every run are validated against Trace_App, and so are the "
      "probe events of every command line the repository's own CLI / API tests drive (probes on; rule tests too in thorough).",
      "Trusted: TLC; the harness's concretisation of file kinds (one representative document per kind), the faulty plugin / "
      "parser seam; in-process execution of PyMarkdownLint.main (SystemExit code = process status).",
      "TLA+ App spec: TLC invariants + scenario replay into the CLI + batched trace validation (Trace_App)")

claim("C10", "model_checking",
      "TLC checks on App that the action guards imply changed<=>announced<=>result and that scan/stdin/list never write; every "
      "MC_AppScen scenario with scan/fix/stdin/list commands (<=3 files quick, <=4 thorough) is replayed into the CLI with the "
      "work directory and a private TMPDIR hashed before/after; seeded samples of 1-3 real documents (test/resources/rules) are run "
      "through fix/scan/stdin/--list-files; all runs' probe events plus the disk observation are validated against Trace_App "
      "(ObservedDisk action); 'no failure of a fix-capable rule => byte-identical' is checked per corpus file; the API's fix results "
      "(files_fixed, was_fixed) are compared with what changed under both return-code schemes; the fix / scan runs driven by the "
      "repository's own tests (probes on) are validated against Trace_App as well.",
      "Trusted: TLC, SHA-256 snapshots of the private work directory, the parsing of 'Fixed:' lines; corpus sampling by VERIF_SEED.",
      "TLA+ App spec: TLC invariants + scenario replay + trace validation with disk observation")

claim("C15", "fault_enumeration",
      "Fault enumeration driven by the App specification: (1) every MC_AppScen scenario with a failing file kind at each position "
      "(plugin error in token / line phase, parser error, undecodable file) x scan/fix/stdin x continue-on-error; (2) one injected "
      "exception at EVERY individual callback invocation (start, each token, each line, completion) of a rule and at every parser "
      "invocation of small multi-file runs, the expected outcome being the specification's outcome for 'file i fails'; (2b) the same at "
      "the callbacks of the middle one of three structured documents (nested lists, quotes, fences, HTML) with --continue-on-error: what "
      "is said about / done to the other files must not change; (3) spec/FileIO.tla (write-back at system-call grain, Crash in every "
      "state; AtomicTarget model-checked for replace-by-rename, also as an Apalache inductive invariant in thorough; the pinned copyfile "
      "procedure violates it: negative configuration): one SIGKILL per system call on the target during write-back (strace), the "
      "system calls of every complete and every killed run validated against Trace_FileIO and the file found on disk compared with the "
      "state the model predicts. All runs are validated against Trace_App (error never masked, stop/continue, no temp file left).",
      "Trusted: TLC, the faulty plugin and parser seam, strace fault injection, SHA-256 snapshots. Known findings of the pinned tree are "
      "listed in known_findings.json and re-found on every run.",
      "TLA+ App + FileIO specs: spec-derived fault enumeration (callback / parser / syscall) + trace validation (probe events, strace logs)")

claim("C19", "model_checking",
      "spec/Discovery.tla defines Select(tree, arguments, flags) from the user guide (eligibility by extension, directory vs "
      "--recurse, globs with * ? [..], each file once by identity, error and no-files results); TLC enumerates every tree "
      "(<=3 entries quick, <=5 thorough, out of a 12-entry universe with nested directories, upper-case and glob-character names) x "
      "argument list (<=2 of 10 / 20 arguments; <=3 thorough) x --recurse x --alternate-extensions, checks Select's own properties "
      "(order independence, idempotence, monotone recursion, only eligible existing files) and prints each selection; ALL scenarios "
      "are replayed into ApplicationFileScanner.determine_files_to_scan on real directory trees, a seeded sample through "
      "`scan -l`, `scan`, `fix` and api.list_path, and every scenario whose selection spans more than one directory through scan and fix "
      "(the processing order is not the discovery function's business). `..` is resolved against the tree.",
      "Trusted: TLC; Python's os.path.normpath as file identity and sorted() as the order; the directory trees built by the harness.",
      "TLA+ Discovery spec (Select): exhaustive TLC enumeration replayed into the real scanner, CLI and API")

claim("C17", "model_checking",
      "spec/Config.tla defines Enabled / Item (most specific layer that mentions the setting wins; -d beats -e; an unacceptable value "
      "falls back to the default, or is a configuration error in strict mode). TLC enumerates the COMPLETE lattice (3^4 file-layer "
      "values x 4 command-line forms x default-enabled/-disabled = 648 points; 4^4 x strict = 512 item points), checks MostSpecificWins "
      "and prints each resolution; each point is written as real configuration (pyproject.toml, .pymarkdown/.yaml/.yml, --config as "
      "JSON/YAML/TOML, --set, -e/-d; rule addressed by id or alias; other layers absent or present with unrelated settings) and "
      "compared with `plugins list`, `plugins info`, and a probe scan; every configurable item of every rule gets a wrongly typed "
      "value at each layer, lenient and strict, and every value the rule documentation names for an item (style tables, numbers used "
      "in the text; 38 items) must be honoured as written at the --set, --config and default-file layers.",
      "Trusted: TLC; the harness's writers for the configuration formats; parsing of the `plugins list` / `plugins info` tables.",
      "TLA+ Config spec: complete lattice enumerated by TLC, replayed as real configuration layers")

claim("C14", "model_checking",
      "spec/Engine.tla gives the per-rule life-cycle automaton (start, every token in order up to end-of-stream, every line with exact "
      "text and 1-based number, completion; disabled rules silent; all rules of a pass see the same stream; named deviations of fix "
      "mode). MC_Engine explores every callback sequence the guards allow and checks that they imply complete, exactly-once service. "
      "Seven recording plugins with different roles are loaded next to the built-in rules for file sequences (1-3 files, incl. empty, "
      "one line, no final newline, pragma only, CRLF, unusual separators, failing files with --continue-on-error) in scan and fix mode; "
      "each callback log is validated by TLC against Trace_Engine with token hashes and line texts computed independently from the "
      "file's bytes. A self-test corrupts a log three ways and requires rejection.",
      "Trusted: TLC; the recording plugins (documented plugin interface only); the harness's independent computation of the expected "
      "stream (parser on the file's text, str.split for lines).",
      "TLA+ Engine spec: TLC on the dispatch guards + batched trace validation of recorded callback logs")

claim("C09", "model_checking",
      "spec/FixSched.tla models the level loop; TLC proves for every instance with 4 rules / 3 levels (every initial trigger set, "
      "every Dirties relation, every outcome of a pass) that one run converges, terminates and raises levels monotonically when fixes "
      "only dirty strictly higher levels, and produces the non-converging schedule for a same-level edge (negative configuration, "
      "required to fail). The schedule of every real fix run (level_begin / level_end probe events) is validated against "
      "Trace_FixSched with the rules' levels as unlogged variables bound on first sight. End to end: documents of test/resources/rules "
      "plus families with cooperating fixes x {default set, each fix-capable default rule alone, pairs}: fix(fix(d)) = fix(d), second "
      "run announces nothing, scan(fix(d)) reports no enabled fix-capable rule.",
      "Trusted: TLC; byte comparison of files; parsing of scan output; corpus sampling by VERIF_SEED in the quick tier. Non-converging "
      "documents of the pinned tree are listed one by one in known_findings.json.",
      "TLA+ FixSched spec: TLC theorem + schedule trace validation + end-to-end fixed-point oracle")

OBS_NOTE = ("Trusted: TLC; the parsing of report lines / API result objects into canonical values; values travel to TLC as SHA-1 digests "
            "of their canonical JSON (equality is what is decided; the harness prints the differing values on rejection).")

claim("C12", "model_checking",
      "spec/Obs.tla: one unlogged function verdict[rule] per document must explain every observation. For each document the harness scans "
      "with each rule alone, all rules, the default set and the default set minus each rule (about 95 configurations); every run "
      "contributes one observation per enabled rule (its projection of the output, empty included) and a forbidden observation for any "
      "report of a rule that is not enabled. TLC (Trace_Obs, batched) accepts a document's log iff the output with a set enabled is "
      "exactly the union of what each rule reports alone. MC_Obs checks that a bound verdict can never change.",
      OBS_NOTE, "TLA+ Obs spec (single verdict function as unlogged variable) + batched trace validation")

claim("C13", "model_checking",
      "spec/Obs.tla with key = (document, mode): the solo run binds what a run says about a document (reports, pragma errors, fixed "
      "bytes); multi-file invocations in which EVERY ordered pair of a pool of 61 (quick) / 127 (thorough) documents is adjacent once per "
      "mode (cyclic sequences of every stride; random triples in thorough), with --continue-on-error so that failing documents are part "
      "of the histories, and one API object reused for the whole pool, must agree (Trace_Obs). The pool holds documents that leave every "
      "parser/rule component with cross-line state non-initial (unclosed fence, open list, pending and defined link definitions, heading "
      "history, fence/list/hr style memories, pragma ranges, documents that make the parser fail after registering state).",
      OBS_NOTE, "TLA+ Obs spec + pairwise-complete file histories validated as traces")

claim("C16", "model_checking",
      "spec/Obs.tla with keys scan/<selection> and fix/<selection> per document: observations from `scan file`, `scan-stdin`, "
      "api.scan_string, api.scan_path, `fix file`, api.fix_string, api.fix_path under four rule selections expressed both on the command "
      "line and through the API (ids and aliases), for documents with/without final newline, CRLF, lone CR, non-ASCII text and unusual "
      "separators; plus CLI scan/fix in child processes under every log level x --stack-trace x --log-file, including a multi-file run "
      "with a failing file and --continue-on-error, whose result lines, exit code and file contents must equal the run without "
      "diagnostics options. All logs validated by TLC (Trace_Obs).",
      OBS_NOTE, "TLA+ Obs spec + entry-point / diagnostics observations validated as traces")

claim("C07", "model_checking",
      "spec/Report.tla: the failures printed for a file must form a sequence accepted by the guards of Failure (line exists, column in "
      "the line or one past its end -- raw or tab-expanded reading --, sorted by (line, column, rule id), no duplicate) and the scan must "
      "end without a plugin error. MC_Report checks that the guards imply in-range / sorted / duplicate-free. Every scan is one trace "
      "validated by TLC (Trace_Report): line-end / encoding shapes, rule-family documents, test/resources/rules, project documentation, "
      "a fixed pool of 6000 generated documents (VERIF_SEED picks the subset in quick) and a fixed pool of 8000 systematic "
      "container x leaf x leaf x leaf documents (all of them under 'all rules' in quick), under the default set, all rules, and each "
      "rule alone (rotation in quick, all 46 in thorough); repeated scans are validated against Trace_Obs; fix families (a trigger of each "
      "fix-capable rule inside nested structures) and repetition families (the same construct three times) are scanned in both tiers; "
      "groups of seven documents are scanned in ONE invocation, which must not fail and must say about each file what its solo scan says.",
      "Trusted: TLC; parsing of the report lines; line lengths computed from the file's text with universal newlines. Documents that do "
      "not parse are C01's business and are skipped (counted). Known defects of the pinned tree are listed per document in known/C07.tsv.",
      "TLA+ Report spec + batched trace validation of every scan's printed failures")

DOCS_NOTE = ("Document spaces are fixed (TLC enumerations, fixed generated / systematic pools, repository files); VERIF_SEED selects the quick "
             "tier's subset, which is always a subset of the thorough tier's space. Defects of the pinned tree are listed per input in known/%s.tsv "
             "(harvested from a complete thorough run, never written at run time). Trusted: TLC; the harness's projections (vh.psweep, vh.canon).")

claim("C01", "model_checking",
      "spec/ParserLoop.tla models the implementation's main loop (source, requeue, closing step, the once-per-line repeat) with the variant "
      "that makes it terminate; TLC checks Termination under fairness; the pstep probe events of real parses are validated against it "
      "(Trace_ParserLoop, in batches), so every recorded parse follows the terminating model. Every document TLC enumerates from spec/MdBlocks.tla "
      "over 20 line alphabets (2-4 lines exhaustively, 3-4 lines per abstract transition with VIEW, positional alphabets of 3-6 lines), every "
      "document of <=3/4 lines over two link-definition alphabets, every string over six inline alphabets (emphasis, links, code, raw HTML, "
      "comments), position / fix / repetition families and the fixed pools are parsed with a CPU-time watchdog (with and without final newline): "
      "an exception or watchdog hit is a violation keyed by exception type, innermost function and document shape. Work = Python "
      "function entries (deterministic): pumped families unit^k (every line shape, inline delimiters) must have log-log slope < 3 and stay "
      "under a quadratic bound.", DOCS_NOTE % "C01",
      "TLA+ ParserLoop spec (termination) + trace validation of the real loop + exhaustive sweep of TLC-enumerated documents + work bound")

claim("C02", "model_checking",
      "Identity oracle TransformToMarkdown(tokens(d)) = d on every document TLC enumerates from spec/MdBlocks.tla AND each of its line "
      "prefixes, with and without final newline, text concretised to ASCII and to the implementation's in-band characters (\\a \\b \\x02 "
      "\\x03 \\x05 U+8268 U+8269 U+00FE) and other non-ASCII letters; inline and link-definition alphabets; fixed pools. The specification "
      "supplies the space (every parser state x line shape transition) and the localisation (first differing line's shape); the verdict "
      "itself is an equality of two observations of the implementation.", DOCS_NOTE % "C02",
      "TLC-enumerated document space (MdBlocks) + round-trip identity")

claim("C03", "model_checking",
      "spec/MdBlocks.tla is the CommonMark block algorithm as a TLA+ state machine (containers, laziness, lists, headings, code, thematic "
      "breaks, tabs, HTML blocks of all seven kinds, link reference definitions) and spec/MdInline.tla the emphasis algorithm with code spans, "
      "backslash escapes, inline links, raw HTML (tags, processing instructions, CDATA, declarations) and URI / email autolinks; TLC enumerates every document over 20 line alphabets (2 lines exhaustive; 3 lines per (abstract state, line shape) transition with "
      "VIEW; positional alphabets for link reference definitions inside list items / block quotes, every tag name of HTML block start "
      "condition 6, and containers three deep) with the model's block tree -- link reference definitions included --, and every line over "
      "{a, space, *, _} up to 6/8, {a, space, *, `, \\} up to 6/7 and {a, [, ], (, ), *} up to 5/6 characters, raw-HTML tags (attribute forms x closers) and autolink / raw-HTML bodies x forms, with the model's HTML (placed in a "
      "paragraph, a heading and a block quote). The real parser's "
      "HTML is parsed back into the same canonical tree and compared. A disagreement is a violation only if corroborated: the vendored "
      "markdown-it-py must give the model's result; otherwise the document is in the contested region (counted; > 5 % is a machinery failure).",
      DOCS_NOTE % "C03", "TLA+ reference models (MdBlocks, MdInline) enumerated by TLC, replayed into parser + HTML generator, corroborated by markdown-it")

claim("C04", "model_checking",
      "spec/MdTokens.tla is the token-stream discipline as a push-down automaton (Open/Close/Atom/End with class table, innermost-first "
      "closing, end token refers to its start token, li directly in its list, empty at end); MC_MdTokens checks the guards keep the stack "
      "well nested. Every token stream of every document of the C01 spaces that parses is validated by TLC (Trace_MdTokens, batched).",
      DOCS_NOTE % "C04", "TLA+ MdTokens automaton + batched trace validation of real token streams")

claim("C05", "model_checking",
      "spec/MdPos.tla: a positioned token is true iff its line exists, its column lies in the line and the character there (raw or "
      "tab-expanded reading) is an opener of its kind (or the region fact of BLANK / indented code / HTML block / paragraph holds); block "
      "tokens come in non-decreasing line order. Evaluated by TLC in Trace_MdTokens for every positioned token of every document of the "
      "C01 spaces that parses. Second oracle: the opener line/column spec/MdBlocks.tla assigns to every block node against the block "
      "tokens of the real parser (documents without tabs whose structure agrees with the model). C11 adds the shift-by-one-line relation "
      "under pragma insertion.", DOCS_NOTE % "C05",
      "TLA+ MdPos predicate evaluated by TLC on every recorded token position + MdBlocks node positions replayed")

claim("C06", "model_checking",
      "spec/Rules.tla transcribes the documented trigger condition of the 24 rules the property names (MD001 MD003 MD004 MD009 MD010 MD012 "
      "MD013 MD018 MD019 MD022 MD023 MD024 MD025 MD026 MD031 MD032 MD035 MD040 MD041 MD042 MD045 MD046 MD047 MD048) as operators returning "
      "must/may line sets (documentation-undecided cases are named in the module and never alarmed), over line, block and inline facts "
      "computed WITHOUT the implementation (text + markdown-it source maps). TLC (Trace_Rules) evaluates each "
      "(document, rule, configuration) and compares with the lines the implementation reported; configurations are the documented values "
      "of each rule's items; default-configuration verdicts of the style-memory rules are also taken after other documents were "
      "processed. Judged only where the implementation's rendered tree equals markdown-it's (precondition C03). Metamorphic twin: the "
      "same document quoted line by line (same structure one container deeper) must get the same lines reported by the 17 rules whose "
      "documented condition does not mention containers.",
      DOCS_NOTE % "C06" + " Not every configuration item is exercised (MD022 lines_above/below, MD024 siblings_only, MD031 list_items, MD009 list_item_empty_lines are left at their defaults).",
      "TLA+ Rules spec (documented conditions) evaluated by TLC against the implementation's reports")

claim("C08", "model_checking",
      "spec/FixNorm.tla states what fix mode may change, as a relation on block sequences (heading level, list start, code block style, "
      "merged neighbouring lists; nothing else); MC_FixNorm checks it is an equivalence that allows a level change and forbids a text "
      "change. The block sequences of a document and of its fixed version come from an independent renderer (markdown-it) with the "
      "text-level normalisation of the fixing rules applied; TLC (Trace_FixNorm) decides Equivalent for every (document, configuration): "
      "default set, default + third-party fix-capable plugins of levels 0/1/5, each fix-capable rule alone.", DOCS_NOTE % "C08",
      "TLA+ FixNorm relation decided by TLC on independent renderings of d and fix(d)")

claim("C11", "model_checking",
      "spec/Pragma.tla defines ExpectedMulti(F, pragmas): the failures of the document with pragma lines inserted, from the failures F of "
      "the original (shift below each insertion point, remove exactly the named rules on the covered lines, malformed pragmas remove "
      "nothing and are reported). MC_Pragma checks the relation's own properties for all small instances. For real documents x insertion "
      "points (between any two lines) x pragma forms (both prefixes, id / alias / upper case / two ids / rule that does not fire, N in "
      "1..3, nine malformed forms, two overlapping pragmas) TLC (Trace_Pragma) evaluates the relation against the observed failures and "
      "pragma errors; the parser side (token positions shifted, same HTML) and fix mode (pragma lines stay in front of their line) are "
      "compared by the harness; a document scanned / fixed right after a copy that carries pragmas naming its rules must get its solo "
      "result (a pragma belongs to its file).", DOCS_NOTE % "C11", "TLA+ Pragma relation evaluated by TLC on real insertions")

claim("C20", "model_checking",
      "spec/Ext.tla: Parse(S, d) = Parse(S cap Trig(d), d). Each document is parsed under subsets S of the six extensions (all 64 for the "
      "trigger families and in thorough), every observation is keyed by the effective set and TLC (Trace_Obs) accepts iff observations "
      "with the same effective set agree (MC_Ext: that grouping follows from Inert for every abstract parser). Tokenizers are re-used "
      "across documents and fed documents that make the parser fail first, so state left behind by an extension shows up. Front matter: "
      "tokens(d) = <<fm>> + tokens(rest) shifted for valid blocks, unchanged parse for invalid ones.", DOCS_NOTE % "C20",
      "TLA+ Ext inertness relation + Obs trace validation over extension subsets")

READY = {"C01", "C02", "C03", "C04", "C05", "C06", "C07", "C08", "C09", "C10", "C11", "C12", "C13", "C14", "C15", "C16", "C17", "C18", "C19", "C20"}
PENDING_REASON = "check is built (vh/checks) but its known-finding table for the pinned tree is still being harvested; not claimed until it is stable under every VERIF_SEED"

# ---------------------------------------------------------------------------------------------
if __name__ == "__main__":
    props = [json.loads(l) for l in open("properties.jsonl")]
    m = {"version": 1, "setup_cmd": "/venv/bin/python -m vh.setup",
         "hooks": {"guard": "PYMARKDOWN_VERIF",
                   "enable": "environment variable PYMARKDOWN_VERIF=1 (set by vh.impl before pymarkdown is imported); events go to an "
                             "in-process sink or to the ndjson file named by PYMARKDOWN_VERIF_TRACE",
                   "baseline_off_cmd": "cd /repo && env -u PYMARKDOWN_VERIF /venv/bin/python -m pytest -ra -q -p no:cacheprovider "
                                       "--timeout=900 --continue-on-collection-errors",
                   "source_commits": json.load(open("tools/hook_commits.json")), "add_only": True},
         "engines": [
             {"name": "tlc", "path": "vh/tlc.py", "serves_properties": sorted(set(CLAIMED) & READY),
              "kind_free_text": "TLC model checking of spec/*.tla, scenario generation (PrintT/ToJson) and batched trace validation"},
             {"name": "replay", "path": "vh/impl.py", "serves_properties": sorted(set(CLAIMED) & READY),
              "kind_free_text": "spec behaviours replayed into the real code (in-process CLI / API / parser drivers)"},
             {"name": "record", "path": "/repo/pymarkdown/general/verif_probe.py", "serves_properties": sorted(set(CLAIMED) & READY),
              "kind_free_text": "probe events recorded from the real code, validated by TLC against spec/trace/*.tla"}],
         "checks": [], "notes": "See DESIGN.md. Exit codes: 0 held (KNOWN-FINDING lines allowed), 1 VIOLATION, 2 machinery failure.",
         "not_applicable": []}
    for p in props:
        pid = p["id"]
        if pid in CLAIMED and pid in READY:
            c = CLAIMED[pid]
            m["checks"].append({
                "property_id": pid,
                "quick_cmd": "/venv/bin/python -m vh.check %s --tier quick" % pid,
                "thorough_cmd": "/venv/bin/python -m vh.check %s --tier thorough" % pid,
                "evidence_file": "/verif/evidence/%s.json" % pid,
                "replay_cmd_template": "/venv/bin/python -m vh.check %s --replay {path}" % pid,
                "engine": c["engine"],
                "level_claimed": {"category": c["category"], "text": c["text"], "design_ref": "DESIGN.md section 6, " + pid},
                "level_note": c["note"], "technique": c["technique"]})
        else:
            m["not_applicable"].append({"property_id": pid, "reason": NA.get(pid, PENDING_REASON)})
    json.dump(m, open("MANIFEST.json", "w"), indent=1)
    print("MANIFEST.json: %d checks, %d not applicable" % (len(m["checks"]), len(m["not_applicable"])))
