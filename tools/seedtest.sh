#!/bin/sh
# usage: tools/seedtest.sh <patch.diff> <check id> [tier]   -- apply a seeded change to /repo, run one check, undo.
P="$1"; ID="$2"; TIER="${3:-quick}"
cd /repo || exit 2
if [ -n "$(git status --porcelain)" ]; then echo "/repo not clean"; exit 2; fi
if ! git apply "$P" 2>/dev/null; then echo "patch does not apply"; exit 2; fi
cd /verif
/venv/bin/python -m vh.check "$ID" --tier "$TIER" > /tmp/seedtest.$$.log 2>&1
RC=$?
grep -E "^(VIOLATION|MACHINERY)" /tmp/seedtest.$$.log | cut -c1-200 | head -3
grep -A1 -E "^VIOLATION" /tmp/seedtest.$$.log | grep signature | cut -c1-220 | head -4
echo "exit=$RC violations=$(grep -c '^VIOLATION' /tmp/seedtest.$$.log) (unknown cases: $(/venv/bin/python -c "import json;print(json.load(open('/verif/evidence/$ID.json')).get('violations'))" 2>/dev/null))"
rm -f /tmp/seedtest.$$.log
cd /repo && git checkout -- . && git clean -fdq pymarkdown
