#!/venv/bin/python
"""Apply every seeded change in seeded/<ID><x>/ to /repo in turn, run the home check (quick tier), undo, and record the
outcome in seeded/<ID><x>/meta.json and seeded/RESULTS.md.   usage: tools/seedreport.py [ID ...]"""
import glob
import json
import os
import subprocess
import sys
import time

os.chdir("/verif")
want = set(sys.argv[1:])
rows = []
for d in sorted(glob.glob("seeded/C*")):
    name = os.path.basename(d)
    pid = name[:3]
    if want and pid not in want and name not in want:
        continue
    patch = os.path.join("/verif", d, "patch.diff")
    if subprocess.run(["git", "-C", "/repo", "status", "--porcelain"], capture_output=True, text=True).stdout.strip():
        sys.exit("/repo is not clean")
    ap = subprocess.run(["git", "-C", "/repo", "apply", patch], capture_output=True, text=True)
    if ap.returncode:
        rows.append((name, pid, "patch does not apply", "", 0))
        continue
    t0 = time.time()
    try:
        p = subprocess.run(["/venv/bin/python", "-m", "vh.check", pid, "--tier", "quick"], capture_output=True, text=True, timeout=3600)
        rc = p.returncode
        nv = sum(1 for l in p.stdout.splitlines() if l.startswith("VIOLATION"))
        first = next((l.strip() for l in p.stdout.splitlines() if l.strip().startswith("signature:")), "")[:220]
    finally:
        subprocess.run(["git", "-C", "/repo", "checkout", "--", "."])
        subprocess.run(["git", "-C", "/repo", "clean", "-fdq", "pymarkdown"])
    try:
        ev = json.load(open("evidence/%s.json" % pid))
        cases = ev.get("violations", 0)
    except Exception:
        cases = None
    rows.append((name, pid, "DETECTED" if rc == 1 else ("missed" if rc == 0 else "machinery failure"), first, cases))
    mp = os.path.join(d, "meta.json")
    try:
        meta = json.load(open(mp))
    except Exception:
        meta = {}
    meta.update({"property": pid, "verified_by_builder": {"patch_applies_to": "current /repo HEAD (hooks + fix: commits)",
                 "ran": "git -C /repo apply %s; python -m vh.check %s --tier quick; git -C /repo checkout -- ." % (patch, pid),
                 "result": rows[-1][2], "exit_code": rc, "violating_cases_not_in_known_findings": cases, "first_signature": first,
                 "wall_s": round(time.time() - t0)}})
    json.dump(meta, open(mp, "w"), indent=1)
    print(name, rows[-1][2], cases, first[:120], flush=True)
with open("seeded/RESULTS.md", "a" if want else "w") as f:
    if not want:
        f.write("# Seeded changes: home check, quick tier\n\n| change | property | result | unlisted violating cases | first signature |\n| --- | --- | --- | --- | --- |\n")
    for r in rows:
        f.write("| %s | %s | %s | %s | `%s` |\n" % (r[0], r[1], r[2], r[4], r[3].replace("|", "/")))
