#!/venv/bin/python
"""Run the home check (quick tier) of every seeded change against a scratch worktree of /repo with the change applied
(VERIF_REPO / VERIF_EVIDENCE, so that /repo and /verif/evidence stay untouched and several can run side by side), and
record the outcome in seeded/<name>/meta.json and seeded/RESULTS.md.      usage: tools/seedreport2.py [-j N] [name ...]"""
import concurrent.futures
import glob
import json
import os
import shutil
import subprocess
import sys
import time

os.chdir("/verif")
args = sys.argv[1:]
jobs_n = 3
if args[:1] == ["-j"]:
    jobs_n = int(args[1])
    args = args[2:]
want = set(args)
names = [os.path.basename(d) for d in sorted(glob.glob("seeded/C*")) if os.path.isdir(d)]
names = [n for n in names if not want or n in want or n[:3] in want]


def one(name):
    pid = name[:3]
    wt = "/tmp/srep/wt_%s" % name
    ev = "/tmp/srep/ev_%s" % name
    shutil.rmtree(ev, ignore_errors=True)
    subprocess.run(["git", "-C", "/repo", "worktree", "remove", "--force", wt], capture_output=True)
    r = subprocess.run(["git", "-C", "/repo", "worktree", "add", "--detach", wt, "HEAD", "-q"], capture_output=True, text=True)
    if r.returncode:
        return name, pid, "worktree failed: " + r.stderr[-200:], "", None, 0
    try:
        ap = subprocess.run(["git", "-C", wt, "apply", os.path.join("/verif/seeded", name, "patch.diff")], capture_output=True, text=True)
        if ap.returncode:
            return name, pid, "patch does not apply", "", None, 0
        t0 = time.time()
        env = dict(os.environ, VERIF_REPO=wt, VERIF_EVIDENCE=ev)
        p = subprocess.run(["/venv/bin/python", "-m", "vh.check", pid, "--tier", "quick"], capture_output=True, text=True, timeout=7200, env=env)
        rc = p.returncode
        first = next((l.strip() for l in p.stdout.splitlines() if l.strip().startswith("signature:")), "")[:220]
        try:
            cases = json.load(open(os.path.join(ev, pid + ".json"))).get("violations")
        except Exception:
            cases = None
        res = "DETECTED" if rc == 1 else ("missed" if rc == 0 else "machinery failure (exit %s): %s" % (rc, (p.stderr or p.stdout)[-200:]))
        return name, pid, res, first, cases, round(time.time() - t0)
    finally:
        subprocess.run(["git", "-C", "/repo", "worktree", "remove", "--force", wt], capture_output=True)
        shutil.rmtree(ev, ignore_errors=True)


os.makedirs("/tmp/srep", exist_ok=True)
rows = []
with concurrent.futures.ThreadPoolExecutor(jobs_n) as ex:
    for name, pid, res, first, cases, wall in ex.map(one, names):
        rows.append((name, pid, res, first, cases))
        mp = os.path.join("seeded", name, "meta.json")
        try:
            meta = json.load(open(mp))
        except Exception:
            meta = {}
        meta.update({"property": pid, "verified_by_builder": {
            "ran": "git worktree of /repo HEAD + git apply seeded/%s/patch.diff; VERIF_REPO=<worktree> python -m vh.check %s --tier quick "
                   "(same code path as applying the patch to /repo; /repo itself untouched)" % (name, pid),
            "result": res, "violating_cases_not_in_known_findings": cases, "first_signature": first, "wall_s": wall}})
        json.dump(meta, open(mp, "w"), indent=1)
        print(name, res, cases, first[:120], flush=True)
old = {}
if os.path.exists("seeded/RESULTS.md"):
    for l in open("seeded/RESULTS.md"):
        c = [x.strip() for x in l.split("|")]
        if len(c) > 5 and c[1].startswith("C") and c[1] != "change":
            old[c[1]] = l
for r in rows:
    old[r[0]] = "| %s | %s | %s | %s | `%s` |\n" % (r[0], r[1], r[2], r[4], r[3].replace("|", "/"))
with open("seeded/RESULTS.md", "w") as f:
    f.write("# Seeded changes: home check, quick tier\n\n| change | property | result | unlisted violating cases | first signature |\n| --- | --- | --- | --- | --- |\n")
    for k in sorted(old):
        f.write(old[k])
