#!/bin/sh
# usage: tools/seeddiff2.sh <tree with the change applied> <ID> [fresh]
#   signatures (known or not) that appear only in the changed tree (quick tier); /repo itself is not touched.
T="$1"; ID="$2"
cd /verif
if [ "$3" = "fresh" ] || [ ! -f /tmp/base_$ID.json ]; then /venv/bin/python tools/harvest.py $ID quick /tmp/base_$ID.json > /tmp/base_$ID.log 2>&1; fi
TAG=$(basename "$T")
VERIF_REPO="$T" /venv/bin/python tools/harvest.py $ID quick /tmp/mut_$TAG.json > /tmp/mut_$TAG.log 2>&1
/venv/bin/python - <<EOF
import json
b=json.load(open('/tmp/base_$ID.json'))['unknown']; m=json.load(open('/tmp/mut_$TAG.json'))['unknown']
new=[s for s in m if s not in b]; gone=[s for s in b if s not in m]
print('$TAG', '$ID', 'baseline', len(b), 'mutant', len(m), 'NEW', len(new), 'gone', len(gone))
for s in new[:4]: print('   +', s[:200])
EOF
