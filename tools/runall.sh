#!/bin/sh
# run the quick command of every registered check; print one line per check
cd /verif
for id in $(/venv/bin/python -c "import json;print(' '.join(c['property_id'] for c in json.load(open('MANIFEST.json'))['checks']))"); do
  s=$(date +%s)
  /venv/bin/python -m vh.check $id --tier ${1:-quick} > /tmp/runall_$id.log 2>&1
  rc=$?
  e=$(date +%s)
  echo "$id exit=$rc $((e-s))s violations=$(grep -c '^VIOLATION' /tmp/runall_$id.log) known=$(grep -c '^KNOWN-FINDING' /tmp/runall_$id.log)"
done
