#!/bin/sh
# usage: tools/seeddiff.sh <patch.diff> <ID>  -- signatures (known or not) that appear only with the patch applied (quick tier)
P="$1"; ID="$2"
cd /verif
if [ ! -f /tmp/base_$ID.json ]; then /venv/bin/python tools/harvest.py $ID quick /tmp/base_$ID.json > /dev/null 2>&1; fi
cd /repo && git apply "$P" || exit 2
cd /verif && /venv/bin/python tools/harvest.py $ID quick /tmp/mut_$ID.json > /dev/null 2>&1
cd /repo && git checkout -- . && git clean -fdq pymarkdown
/venv/bin/python - <<EOF
import json
b=json.load(open('/tmp/base_$ID.json'))['unknown']; m=json.load(open('/tmp/mut_$ID.json'))['unknown']
new=[s for s in m if s not in b]; gone=[s for s in b if s not in m]
print('$ID', 'baseline', len(b), 'mutant', len(m), 'NEW', len(new), 'gone', len(gone))
for s in new[:4]: print('   +', s[:200])
EOF
