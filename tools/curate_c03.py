#!/venv/bin/python
"""C03: add the unknown signatures of a harvest to known/C03.tsv, grouped by a coarse effect (the signatures stay per input)."""
import collections, hashlib, json, sys
h = json.load(open(sys.argv[1]))
kf = json.load(open("/verif/known_findings.json"))
have = {l.rstrip("\n").partition("\t")[2] for l in open("/verif/known/C03.tsv", encoding="utf-8")}
ids = {e["id"] for e in kf["findings"] if e["property"] == "C03"}


def key(s):
    p = s.split(" :: ")
    if s.startswith("inline:"):
        return p[0]
    if len(p) >= 3:
        e = p[1].replace("expected ", "").split(" ")[0].split("[")[0] or "(nothing)"
        g = p[2].replace("got ", "").split(" ")[0].split("[")[0] or "(nothing)"
        return "block structure: expected to start with %s, implementation gives %s" % (e, g)
    return "other"


groups = collections.OrderedDict()
for s in h["unknown"]:
    if s not in have:
        groups.setdefault(key(s), []).append(s)
n = 0
with open("/verif/known/C03.tsv", "a", encoding="utf-8") as f:
    for k, ss in groups.items():
        eid = "c03-" + hashlib.sha1(k.encode()).hexdigest()[:8]
        for s in ss:
            f.write("%s\t%s\n" % (eid, s))
            n += 1
        if eid not in ids:
            ids.add(eid)
            ex = h["examples"].get(ss[0], {})
            kf["findings"].append({"property": "C03", "id": eid, "kind": "known", "signature_file": "known/C03.tsv",
                                   "example": json.dumps(ex.get("document", ex), default=repr)[:300] if ex else ss[0][:300],
                                   "what": ("%s (inputs listed in known/C03.tsv; corroborated by markdown-it)" % k)[:400]})
json.dump(kf, open("/verif/known_findings.json", "w"), indent=1)
print("C03 added", n, "signatures in", len(groups), "groups")
