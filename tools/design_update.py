#!/venv/bin/python
"""Replace section 11 of DESIGN.md by tools/design_section11.md + the seed matrix of seeded/RESULTS.md."""
import json, glob, os
os.chdir("/verif")
s = open("DESIGN.md").read()
s = s[:s.index("## 11. As built")]
body = open("tools/design_section11.md").read().rstrip("\n") + "\n"
rows = []
for d in sorted(glob.glob("seeded/C*")):
    try:
        m = json.load(open(os.path.join(d, "meta.json")))
    except Exception:
        continue
    v = m.get("verified_by_builder", {})
    rows.append("| %s | %s | %s | %s | %s |" % (os.path.basename(d), ", ".join(m.get("files") or [])[:70], (m.get("summary") or "")[:150].replace("|", "/").replace("\n", " "),
                                              v.get("result", "not run"), (v.get("first_signature") or "").replace("|", "/")[:90]))
body += ("\n### 11.8 Seeded changes: which check catches which\n\nOne hundred and twenty changes written by independent sub-agents from the property text alone, in six rounds of 20 "
         "(each keeps the test suite at its baseline; from round 3 on each agent was told what the earlier changes for its property touched and asked "
         "for a different mechanism).  Home check, quick tier, default seed; `tools/seedreport2.py` applies each patch to a scratch worktree of /repo's HEAD "
         "and runs the registered command against it.  **First contact** matters more than the final column: of the 20 changes of round 3, about 11 "
         "were missed or caught only by chance by the checks as they stood; of round 4, 9; of round 5, 5 (C03e, C04e, C07e, C10e, C16e) plus four "
         "that were caught through a single document; of round 6 — whose agents were told what the five earlier changes for their property touched — 11 "
         "(C01f C02f C03f C05f C07f C09f C12f C15f C16f C18f C20f).  Every miss was a gap in the *input space or observation*, never in a specification: each was "
         "closed by enumerating one more family (positional alphabets K J B P W G, raw-HTML / wrapped-label / TAB / emphasis-in-link-text position "
         "families, fix and repetition families, line-ending and BOM documents, `.` in the argument pool, multi-file and cross-file runs, the API under "
         "both return-code schemes, documented configuration values, strict mode by property; in round 6: positional alphabets X and Y, the raw-HTML part of `MdInline` "
         "with its two alphabets, a good path followed by a path in error in the `App` scenarios, a document holding every inline kind, "
         "richer documents for the isolation runs, YAML front-matter variants with and without the extension and under rule subsets, "
         "directory entry points of CLI and API, paragraphs with three and more edits in one text token) or by one more observation (hard breaks in C08, report "
         "positions in C05 — in round 6 also for the rules that report on an inline element —, processing order in C19, an extension must not make a parsing document fail (C20), exact shape lists instead of patterns in C19's known findings).  The table shows the state after that.\n\n| change | file(s) | what it does | home check (quick) | first signature |\n| --- | --- | --- | --- | --- |\n" + "\n".join(rows) + "\n")
if os.path.exists("tools/design_section11_tail.md"):
    body += "\n" + open("tools/design_section11_tail.md").read()
open("DESIGN.md", "w").write(s + body)
print("DESIGN.md section 11 rewritten,", len(rows), "seeds")
