#!/venv/bin/python
"""Replace section 11 of DESIGN.md by tools/design_section11.md + the seed matrix of seeded/RESULTS.md."""
import json, glob, os
os.chdir("/verif")
s = open("DESIGN.md").read()
s = s[:s.index("## 11. As built")]
body = open("tools/design_section11.md").read().rstrip("\n") + "\n"
rows = []
for d in sorted(glob.glob("seeded/C*")):
    try:
        m = json.load(open(os.path.join(d, "meta.json")))
    except Exception:
        continue
    v = m.get("verified_by_builder", {})
    rows.append("| %s | %s | %s | %s | %s |" % (os.path.basename(d), ", ".join(m.get("files") or [])[:70], (m.get("summary") or "")[:150].replace("|", "/").replace("\n", " "),
                                              v.get("result", "not run"), (v.get("first_signature") or "").replace("|", "/")[:90]))
body += ("\n### 11.8 Seeded changes: which check catches which\n\nSixty changes written by independent sub-agents from the property text alone (each keeps the test suite at its "
         "baseline).  Home check, quick tier, default seed; `tools/seedreport2.py` applies each patch to a scratch worktree of /repo's HEAD and runs the "
         "registered command against it.\n\n| change | file(s) | what it does | home check (quick) | first signature |\n| --- | --- | --- | --- | --- |\n" + "\n".join(rows) + "\n")
if os.path.exists("tools/design_section11_tail.md"):
    body += "\n" + open("tools/design_section11_tail.md").read()
open("DESIGN.md", "w").write(s + body)
print("DESIGN.md section 11 rewritten,", len(rows), "seeds")
