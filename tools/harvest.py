#!/venv/bin/python
"""Run one check and dump every violation signature that is not yet a known finding (for curation into known_findings.json).
usage: tools/harvest.py <ID> <tier> <out.json>"""
import collections
import importlib
import json
import sys
sys.path.insert(0, "/verif")
pid, tier, out = sys.argv[1], sys.argv[2], sys.argv[3]
mod = importlib.import_module("vh.checks.%s" % pid.lower())
ctx = mod.run(pid, tier)
sigs = collections.OrderedDict()
for s, p in ctx.unknown:
    sigs.setdefault(s, {"n": 0, "first": p})
    sigs[s]["n"] += 1
json.dump({"unknown": {s: v["n"] for s, v in sigs.items()}, "examples": {s: v["first"] for s, v in list(sigs.items())[:400]},
           "known_hits": {k: v[0] for k, v in ctx.known_hits.items()}}, open(out, "w"), indent=1, default=repr)
print(pid, tier, "unknown signatures:", len(sigs), "known hits:", {k: v[0] for k, v in ctx.known_hits.items()})
