#!/venv/bin/python
"""Turn a harvest (tools/harvest.py) into known findings: append the unknown signatures to known/<ID>.tsv grouped into
entries by a grouping key, and add the entries to known_findings.json.
usage: tools/curate.py <ID> <harvest.json> <group-mode>     group-mode: effect | prefix:<n> | one:<entry id>:<what>"""
import collections
import hashlib
import json
import os
import sys

pid, path, mode = sys.argv[1], sys.argv[2], sys.argv[3]
h = json.load(open(path))
sigs = list(h["unknown"])
os.makedirs("/verif/known", exist_ok=True)
tsv = "/verif/known/%s.tsv" % pid
have = set()
if os.path.exists(tsv):
    have = {l.rstrip("\n").partition("\t")[2] for l in open(tsv, encoding="utf-8")}
groups = collections.OrderedDict()
for s in sigs:
    if s in have:
        continue
    if mode == "effect":
        key = s.split(" :: ", 1)[1] if " :: " in s else s
    elif mode.startswith("prefix:"):
        key = ":".join(s.split(":")[: int(mode.split(":")[1])])
    else:
        key = mode.split(":", 2)[1]
    groups.setdefault(key, []).append(s)
kf = json.load(open("/verif/known_findings.json"))
ids = {e["id"] for e in kf["findings"] if e["property"] == pid}
with open(tsv, "a", encoding="utf-8") as f:
    for key, ss in groups.items():
        if mode.startswith("one:"):
            eid, what = mode.split(":", 2)[1], mode.split(":", 2)[2]
        else:
            eid = "%s-%s" % (pid.lower(), hashlib.sha1(key.encode()).hexdigest()[:8])
            what = key
        for s in ss:
            f.write("%s\t%s\n" % (eid, s))
        if eid not in ids:
            ids.add(eid)
            ex = h["examples"].get(ss[0], {})
            kf["findings"].append({"property": pid, "id": eid, "kind": "known", "signature_file": "known/%s.tsv" % pid,
                                   "example": json.dumps(ex.get("document", ex), default=repr)[:300] if ex else ss[0][:300],
                                   "what": ("%s (inputs listed in known/%s.tsv)" % (what, pid))[:400]})
json.dump(kf, open("/verif/known_findings.json", "w"), indent=1)
print(pid, "added", sum(len(v) for v in groups.values()), "signatures in", len(groups), "groups")
